package main

import (
	"fmt"
	"os"
	"go/constant"
	"go/types"
	"sort"
	"strconv"
	"strings"

	"golang.org/x/tools/go/ssa"
)

// Obligation is one proof goal: under Decls[:NDecl] and Facts[:NFact], Cond => Goal.
type Obligation struct {
	Fn     string
	Kind   string // ensures, requires@callsite, safe/..., inv, frame, lemma, vacuity, canary
	Label  string
	Name   string // Fn/Kind/Label
	Cond   string
	Goal   string
	NDecl  int
	NFact  int
	Props  []string
	Pos    string
	Src    string // contract clause text or source text
	Blk    int
	Text   string // SMT-LIB text (generated before the parallel solving stage)
	Expect string // "unsat" (default) or "sat" for cover/canary obligations
	vc     *VC
	// filled by the solver stage
	Result *SolveResult
}

type Fact struct {
	Term   string
	Origin string
	Blk    int // top-frame block in which the fact arose (-1: global)
}

type unsupported struct{ why string }

// VC is the verification-condition context of one function under contract.
type VC struct {
	P  *Program
	S  *Sorts
	SS *SpecSet
	G  *Globals

	fn  *ssa.Function
	con *Contract

	decls []string
	facts []Fact
	obls  []*Obligation
	ctr   int

	strlits   map[string]string
	declared  map[string]bool
	ghostUsed map[string]bool
	usedAssumptions map[string]bool // extern/trusted contracts and axioms used
	macroMemo       map[string]string // large closed macro expansions, named once
	declName        []string          // per declaration: the name a define-fun defines ("" otherwise)
	declTok         [][]string        // per declaration: generated symbols it mentions
	factTok         [][]string        // per fact: generated symbols it mentions
	labels    map[string]int
	notes     []string

	inlineStack []*ssa.Function
	epochCtr    int
	topFrame    *Frame
	specErrs    []string
	canaryDone  bool
	globalRefs  []string
	errSentinels []string
	boxed map[string]bool
	curBlk int
	loopFrames   []*loopFrame
	curLoopFrame *loopFrame
	suffix string // "@as:<Interface>" when verifying against an interface-method contract
	reach  map[[2]int]bool // forward reachability between top-frame blocks
}

func newVC(P *Program, SS *SpecSet, G *Globals, fn *ssa.Function, con *Contract) *VC {
	return &VC{P: P, S: newSorts(P), SS: SS, G: G, fn: fn, con: con,
		strlits: map[string]string{}, declared: map[string]bool{}, ghostUsed: map[string]bool{},
		usedAssumptions: map[string]bool{}, labels: map[string]int{}, curBlk: -1}
}

func (vc *VC) fresh(hint string) string {
	vc.ctr++
	return fmt.Sprintf("%s!%d", sanitize(hint), vc.ctr)
}

func sanitize(s string) string {
	var b strings.Builder
	for _, r := range s {
		if r >= 'a' && r <= 'z' || r >= 'A' && r <= 'Z' || r >= '0' && r <= '9' || r == '_' || r == '.' {
			b.WriteRune(r)
		} else {
			b.WriteRune('_')
		}
	}
	return b.String()
}

func (vc *VC) declare(hint, sort string) string {
	n := vc.fresh(hint)
	vc.decls = append(vc.decls, fmt.Sprintf("(declare-const %s %s)", n, sort))
	return n
}

func (vc *VC) declareNamed(name, sort string) string {
	if !vc.declared[name] {
		vc.declared[name] = true
		vc.decls = append(vc.decls, fmt.Sprintf("(declare-const %s %s)", name, sort))
	}
	return name
}

func (vc *VC) define(hint, sort, term string) string {
	if isAtom(term) {
		return term
	}
	n := vc.fresh(hint)
	if sort != "Bool" && strings.Contains(term, "(ite ") && os.Getenv("GOVC_DECLITE") != "" {
		// (experimental, off by default: it helped some obligations and lost others)
		// a value that is a case split (phi merge, in-place or reallocating append):
		// name it by a constant rather than a macro, so that triggers mentioning it
		// stay usable (solvers reject patterns that contain ite once the macro is
		// expanded, and then choose their own)
		vc.decls = append(vc.decls, fmt.Sprintf("(declare-const %s %s)\n(assert (= %s %s))", n, sort, n, term))
		return n
	}
	vc.decls = append(vc.decls, fmt.Sprintf("(define-fun %s () %s %s)", n, sort, term))
	return n
}

func isAtom(t string) bool {
	return !strings.ContainsAny(t, " (")
}

func (vc *VC) assume(cond, term, origin string) {
	if term == "true" {
		return
	}
	if cond != "true" && cond != "" {
		term = "(=> " + cond + " " + term + ")"
	}
	vc.facts = append(vc.facts, Fact{term, origin, vc.curBlk})
}

func (vc *VC) oblige(kind, label, cond, goal, pos, src string, props []string) *Obligation {
	props = routeProps(kind, props)
	key := kind + "/" + label
	k := vc.labels[key]
	vc.labels[key]++
	if k > 0 {
		label = fmt.Sprintf("%s#%d", label, k)
	}
	fnName := vc.suffix
	if vc.fn != nil {
		fnName = canonName(vc.fn) + vc.suffix
	}
	o := &Obligation{Fn: fnName, Kind: kind, Label: label, Cond: cond, Goal: goal,
		NDecl: len(vc.decls), NFact: len(vc.facts), Blk: vc.curBlk, Props: props, Pos: pos, Src: src, vc: vc, Expect: "unsat"}
	o.Name = o.Fn + "/" + kind
	if label != "" {
		o.Name += "/" + label
	}
	vc.obls = append(vc.obls, o)
	return o
}

func (vc *VC) strlit(s string) string {
	if n, ok := vc.strlits[s]; ok {
		return n
	}
	n := fmt.Sprintf("strlit!%d", len(vc.strlits))
	vc.strlits[s] = n
	return n
}

// ---- SMT helpers --------------------------------------------------------

func and(xs ...string) string {
	var ys []string
	for _, x := range xs {
		if x == "true" || x == "" {
			continue
		}
		if x == "false" {
			return "false"
		}
		ys = append(ys, x)
	}
	switch len(ys) {
	case 0:
		return "true"
	case 1:
		return ys[0]
	}
	return "(and " + strings.Join(ys, " ") + ")"
}

func or(xs ...string) string {
	var ys []string
	for _, x := range xs {
		if x == "false" || x == "" {
			continue
		}
		if x == "true" {
			return "true"
		}
		ys = append(ys, x)
	}
	switch len(ys) {
	case 0:
		return "false"
	case 1:
		return ys[0]
	}
	return "(or " + strings.Join(ys, " ") + ")"
}

func not(x string) string {
	switch x {
	case "true":
		return "false"
	case "false":
		return "true"
	}
	if strings.HasPrefix(x, "(not ") && strings.HasSuffix(x, ")") && balanced(x[5:len(x)-1]) {
		return x[5 : len(x)-1]
	}
	return "(not " + x + ")"
}

func balanced(s string) bool {
	d := 0
	for _, c := range s {
		if c == '(' {
			d++
		} else if c == ')' {
			d--
			if d < 0 {
				return false
			}
		}
	}
	return d == 0
}

func implies(a, b string) string {
	if a == "true" {
		return b
	}
	if b == "true" {
		return "true"
	}
	return "(=> " + a + " " + b + ")"
}

func ite(c, a, b string) string {
	if c == "true" || a == b {
		return a
	}
	if c == "false" {
		return b
	}
	return "(ite " + c + " " + a + " " + b + ")"
}

func eq(a, b string) string {
	if a == b {
		return "true"
	}
	return "(= " + a + " " + b + ")"
}

func sel(a, i string) string { return "(select " + a + " " + i + ")" }
func sto(a, i, v string) string { return "(store " + a + " " + i + " " + v + ")" }

func intLit(s string) string {
	if strings.HasPrefix(s, "-") {
		return "(- " + s[1:] + ")"
	}
	return s
}

// wrap applies Go's machine semantics for type t to an exact Int result.
func wrapInt(t types.Type, x string) string {
	lo, hi, ok := intRange(t)
	if !ok {
		return x
	}
	bits, signed := intBits(t)
	mod := pow2(bits)
	if signed {
		half := pow2(bits - 1)
		return fmt.Sprintf("(ite (and (<= %s %s) (<= %s %s)) %s (- (mod (+ %s %s) %s) %s))", lo, x, x, hi, x, x, half, mod, half)
	}
	return fmt.Sprintf("(ite (and (<= 0 %s) (<= %s %s)) %s (mod %s %s))", x, x, hi, x, x, mod)
}

func pow2(n int) string {
	switch n {
	case 7:
		return "128"
	case 8:
		return "256"
	case 15:
		return "32768"
	case 16:
		return "65536"
	case 31:
		return "2147483648"
	case 32:
		return "4294967296"
	case 63:
		return "9223372036854775808"
	case 64:
		return "18446744073709551616"
	}
	panic("pow2")
}

const maxLen = "281474976710656" // 2^48: address-space bound on any len/cap (runtime fact)

// typeInv: facts the Go runtime guarantees for a value of type t produced by a
// load, parameter, call result or havoc. alloc is the allocation frontier.
func (vc *VC) typeInv(x string, t types.Type, alloc string) string {
	switch u := t.Underlying().(type) {
	case *types.Basic:
		if lo, hi, ok := intRange(t); ok {
			return fmt.Sprintf("(and (<= %s %s) (<= %s %s))", lo, x, x, hi)
		}
		if u.Info()&types.IsString != 0 {
			return fmt.Sprintf("(and (<= 0 (strlen %s)) (<= (strlen %s) %s))", x, x, maxLen)
		}
	case *types.Pointer, *types.Map, *types.Chan:
		if alloc == "" {
			return fmt.Sprintf("(<= 0 %s)", x)
		}
		return fmt.Sprintf("(and (<= 0 %s) (< %s %s))", x, x, alloc)
	case *types.Slice:
		s := fmt.Sprintf("(and (<= 0 (s_off %[1]s)) (<= 0 (s_len %[1]s)) (<= (s_len %[1]s) (s_cap %[1]s)) (<= (+ (s_off %[1]s) (s_cap %[1]s)) %[2]s) (<= 0 (s_arr %[1]s)) (=> (= (s_arr %[1]s) 0) (and (= (s_cap %[1]s) 0) (= (s_off %[1]s) 0)))", x, maxLen)
		if alloc != "" {
			s += fmt.Sprintf(" (< (s_arr %s) %s)", x, alloc)
		}
		return s + ")"
	case *types.Struct:
		info := vc.S.structInfoOf(t)
		if info == nil {
			return "true"
		}
		var parts []string
		for i := 0; i < u.NumFields(); i++ {
			p := vc.typeInv("("+info.Fields[i]+" "+x+")", u.Field(i).Type(), alloc)
			parts = append(parts, p)
		}
		return and(parts...)
	case *types.Interface:
		if n, ok := vc.P.closedInterface(t); ok {
			info := vc.S.ifaceInfoOf(n)
			var parts []string
			for i, T := range info.Impls {
				p := vc.typeInv("("+info.Projs[i]+" "+x+")", T, alloc)
				if p != "true" {
					parts = append(parts, implies("((_ is "+info.Ctors[i]+") "+x+")", p))
				}
			}
			return and(parts...)
		}
		return "true"
	}
	return "true"
}

func (vc *VC) zero(t types.Type) string {
	switch u := t.Underlying().(type) {
	case *types.Basic:
		switch {
		case u.Info()&types.IsBoolean != 0:
			return "false"
		case u.Info()&types.IsInteger != 0:
			return "0"
		case u.Info()&types.IsString != 0:
			return vc.strlit("")
		case u.Kind() == types.UnsafePointer, u.Kind() == types.UntypedNil:
			return "0"
		}
		return "opaque_zero"
	case *types.Pointer, *types.Map, *types.Chan, *types.Signature:
		return "0"
	case *types.Slice:
		return "nil_slice"
	case *types.Array:
		return "((as const " + vc.S.sortOf(t) + ") " + vc.zero(u.Elem()) + ")"
	case *types.Struct:
		info := vc.S.structInfoOf(t)
		if info == nil {
			return "opaque_zero"
		}
		if u.NumFields() == 0 {
			return info.Ctor
		}
		var b strings.Builder
		b.WriteString("(" + info.Ctor)
		for i := 0; i < u.NumFields(); i++ {
			b.WriteString(" " + vc.zero(u.Field(i).Type()))
		}
		b.WriteString(")")
		return b.String()
	case *types.Interface:
		if n, ok := vc.P.closedInterface(t); ok {
			return vc.S.ifaceInfoOf(n).Nil
		}
		return "0"
	}
	return "opaque_zero"
}

func (vc *VC) constTerm(c *ssa.Const) string {
	t := c.Type()
	if c.Value == nil {
		return vc.zero(t)
	}
	switch c.Value.Kind() {
	case constant.Bool:
		if constant.BoolVal(c.Value) {
			return "true"
		}
		return "false"
	case constant.Int:
		return intLit(c.Value.ExactString())
	case constant.String:
		return vc.strlit(constant.StringVal(c.Value))
	}
	panic(unsupported{"constant kind " + c.Value.Kind().String()})
}

// ---- full SMT text of an obligation -----------------------------------------

const basePrelude = `(define-fun nil_slice () Slice (mk_slice 0 0 0 0))
(declare-const opaque_zero Opaque)
(declare-fun strlen (Str) Int)
(declare-fun strcat (Str Str) Str)
(declare-fun str_lt (Str Str) Bool)
(declare-fun str_at (Str Int) Int)
(declare-fun str_sub (Str Int Int) Str)
(declare-fun blen (Bytes) Int)
(declare-fun bcat (Bytes Bytes) Bytes)
(declare-fun bview ((Array Int Int) Int Int) Bytes)
(assert (forall ((x Bytes)) (! (>= (blen x) 0) :pattern ((blen x)))))
(assert (forall ((a (Array Int Int)) (o Int) (n Int)) (! (=> (>= n 0) (= (blen (bview a o n)) n)) :pattern ((bview a o n)))))
(assert (forall ((x Bytes) (y Bytes)) (! (and (= (blen (bcat x y)) (+ (blen x) (blen y))) (=> (= (blen x) 0) (= (bcat x y) y)) (=> (= (blen y) 0) (= (bcat x y) x))) :pattern ((bcat x y)))))
(declare-fun bytes_of_str (Str) Bytes)
(declare-fun str_of_bytes (Bytes) Str)
(declare-fun bitop (Int Int Int) Int)
(declare-fun ix (Int Int) Int)
(assert (forall ((o Int) (j Int)) (! (= (ix o j) (+ o j)) :pattern ((ix o j)))))
(define-fun tdiv ((a Int) (b Int)) Int (ite (>= a 0) (ite (> b 0) (div a b) (- (div a (- b)))) (ite (> b 0) (- (div (- a) b)) (div (- a) (- b)))))
(define-fun tmod ((a Int) (b Int)) Int (- a (* b (tdiv a b))))
`

func (o *Obligation) smt(timeoutMs int) string {
	vc := o.vc
	var b strings.Builder
	b.WriteString("; " + o.Name + "\n")
	b.WriteString("(set-option :produce-models true)\n(set-logic ALL)\n")
	gp := vc.ghostPrelude()
	b.WriteString(vc.S.prelude())
	b.WriteString(basePrelude)
	// string literals: distinct, with lengths
	lits := sortedKeys(vc.strlits)
	if len(lits) > 0 {
		var names []string
		for _, s := range lits {
			n := vc.strlits[s]
			names = append(names, n)
			fmt.Fprintf(&b, "(declare-const %s Str) ; %s\n(assert (= (strlen %s) %d))\n", n, strconv.Quote(s), n, len(s))
		}
		if len(names) > 1 {
			// deterministic order
			sort.Strings(names)
			b.WriteString("(assert (distinct " + strings.Join(names, " ") + "))\n")
		}
	}
	// an axiom may speak about values boxed into an open interface (`w is T`, `w.(T)`):
	// the boxing symbols it mentions are declared ahead of it, wherever in the function
	// (or during the translation of the axiom itself) they were first needed
	early := map[int]bool{}
	if strings.Contains(gp, "dyntag") || strings.Contains(gp, "box_") {
		for i, d := range vc.decls {
			if strings.HasPrefix(d, "(declare-fun box_") || strings.HasPrefix(d, "(declare-fun unbox_") || strings.HasPrefix(d, "(declare-fun dyntag ") {
				b.WriteString(d + "\n")
				early[i] = true
			}
		}
	}
	b.WriteString(gp)
	// facts first (control-flow slicing), then only the definitions they and the goal
	// mention, transitively: a define-fun nobody refers to is dead text, and in long
	// functions the definitions made for other program points dominated the query
	var factLines []string
	needed := map[string]bool{}
	vc.indexTokens()
	for i, f := range vc.facts[:o.NFact] {
		if !vc.relevant(f, o) {
			continue
		}
		factLines = append(factLines, "(assert "+f.Term+") ; "+f.Origin+"\n")
		for _, t := range vc.factTok[i] {
			needed[t] = true
		}
	}
	var goal string
	if o.Expect == "sat" {
		goal = "(assert " + and(o.Cond, o.Goal) + ")\n"
	} else {
		goal = "(assert " + and(o.Cond, not(o.Goal)) + ")\n"
	}
	collectGenerated(goal, needed)
	decls := vc.decls[:o.NDecl]
	keep := make([]bool, len(decls))
	for i := len(decls) - 1; i >= 0; i-- {
		name := vc.declName[i]
		if name == "" || needed[name] {
			// declarations (and their defining assertions) are always kept; a
			// definition only when something kept mentions it
			keep[i] = true
			for _, t := range vc.declTok[i] {
				needed[t] = true
			}
		}
	}
	for i, d := range decls {
		if keep[i] && !early[i] {
			b.WriteString(d + "\n")
		}
	}
	for _, l := range factLines {
		b.WriteString(l)
	}
	b.WriteString(goal)
	b.WriteString("(check-sat)\n")
	return b.String()
}

// indexTokens caches, for every declaration and fact produced so far, the generated
// symbols it mentions (and for a define-fun its own name), so that slicing a query
// does not rescan the text.
func (vc *VC) indexTokens() {
	for i := len(vc.declTok); i < len(vc.decls); i++ {
		d := vc.decls[i]
		name := ""
		if strings.HasPrefix(d, "(define-fun ") {
			name = d[len("(define-fun "):]
			if j := strings.IndexByte(name, ' '); j > 0 {
				name = name[:j]
			}
		}
		m := map[string]bool{}
		collectGenerated(d, m)
		toks := make([]string, 0, len(m))
		for t := range m {
			if t != name {
				toks = append(toks, t)
			}
		}
		vc.declName = append(vc.declName, name)
		vc.declTok = append(vc.declTok, toks)
	}
	for i := len(vc.factTok); i < len(vc.facts); i++ {
		m := map[string]bool{}
		collectGenerated(vc.facts[i].Term, m)
		toks := make([]string, 0, len(m))
		for t := range m {
			toks = append(toks, t)
		}
		vc.factTok = append(vc.factTok, toks)
	}
}

// collectGenerated adds every generated symbol (they all contain '!') of an
// SMT-LIB text to the set.
func collectGenerated(s string, out map[string]bool) {
	start, bang := -1, false
	for i := 0; i <= len(s); i++ {
		var c byte
		if i < len(s) {
			c = s[i]
		}
		sym := c >= 'a' && c <= 'z' || c >= 'A' && c <= 'Z' || c >= '0' && c <= '9' || c == '_' || c == '.' || c == '!'
		if sym {
			if start < 0 {
				start = i
			}
			if c == '!' {
				bang = true
			}
			continue
		}
		if start >= 0 && bang {
			out[s[start:i]] = true
		}
		start, bang = -1, false
	}
}
