package parser

// Replay templates for obligations of package parser (injected with
// `go test -overlay`; never written into /repo).

import (
	"crypto/ed25519"
	"crypto/rand"
	"fmt"
	"testing"

	"github.com/biscuit-auth/biscuit-go/v2"
)

// TestGovcReplayExprTermNil: C14 — ExprTerm.ToExpr discards the error of
// Term.ToBiscuit, so an expression operand that cannot be converted (unbound
// parameter, undecodable date) becomes a Value with a nil term: the parser returns
// no error, and the first use of the rule dereferences nil.
func TestGovcReplayExprTermNil(t *testing.T) {
	for _, src := range []string{
		`head($x) <- fact($x), $x == {missing}`,
		`head($x) <- fact($x), $x < 2023-13-45T99:00:00Z`,
	} {
		rule, err := FromStringRule(src)
		if err != nil {
			continue
		}
		for _, e := range rule.Expressions {
			for _, op := range e {
				if v, ok := op.(biscuit.Value); ok && v.Term == nil {
					what := "and using it panics"
					func() {
						defer func() {
							if r := recover(); r != nil {
								what = fmt.Sprintf("and Builder.AddAuthorityRule panics: %v", r)
							}
						}()
						_, priv, _ := ed25519.GenerateKey(rand.Reader)
						b := biscuit.NewBuilder(priv)
						b.AddAuthorityRule(rule)
						what = "(AddAuthorityRule did not panic)"
					}()
					fmt.Printf("REPRODUCED: parsing %q returns no error but the expression holds a Value with a nil term %s\n", src, what)
					t.Fail()
					return
				}
			}
		}
	}
	fmt.Println("NOT-REPRODUCED: every expression operand is either converted or reported as an error")
}

func govcRender(e biscuit.Expression) string {
	s := ""
	for _, op := range e {
		switch v := op.(type) {
		case biscuit.Value:
			if v.Term == nil {
				s += "<nil> "
			} else {
				s += v.Term.String() + " "
			}
		case biscuit.UnaryOp:
			s += map[biscuit.UnaryOp]string{biscuit.UnaryNegate: "!", biscuit.UnaryParens: "()", biscuit.UnaryLength: "len"}[v] + " "
		case biscuit.BinaryOp:
			s += map[biscuit.BinaryOp]string{biscuit.BinaryLessThan: "<", biscuit.BinaryLessOrEqual: "<=", biscuit.BinaryGreaterThan: ">", biscuit.BinaryGreaterOrEqual: ">=", biscuit.BinaryEqual: "==", biscuit.BinaryContains: "contains", biscuit.BinaryPrefix: "starts_with", biscuit.BinarySuffix: "ends_with", biscuit.BinaryRegex: "matches", biscuit.BinaryAdd: "+", biscuit.BinarySub: "-", biscuit.BinaryMul: "*", biscuit.BinaryDiv: "/", biscuit.BinaryAnd: "&&", biscuit.BinaryOr: "||", biscuit.BinaryIntersection: "intersection", biscuit.BinaryUnion: "union"}[v] + " "
		default:
			s += "<?> "
		}
	}
	return s
}

// TestGovcReplayExprCorpus: C14 — expressions of the documented grammar against
// their postfix form written by hand from the documented precedence
// (! over * / over + - over comparisons over && over ||; methods bind tightest;
// parentheses are kept as a unary operation).
func TestGovcReplayExprCorpus(t *testing.T) {
	corpus := []struct{ src, want string }{
		{`1 + 2 * 3 < 10`, `1 2 3 * + 10 < `},
		{`$a < 1 && $b > 2 || $c == 3`, `$a 1 < $b 2 > && $c 3 == || `},
		{`($x) == 1`, `$x () 1 == `},
		{`!($x)`, `$x () ! `},
		{`(1 + 2) * 3 == 9`, `1 2 + () 3 * 9 == `},
		{`!$a && $b`, `$a ! $b && `},
		{`$s.starts_with("a") && $s.length() == 3`, `$s "a" starts_with $s len 3 == && `},
		{`1 - 2 - 3 == 0`, `1 2 - 3 - 0 == `},
		{`8 / 2 / 2 == 2`, `8 2 / 2 / 2 == `},
		{`[1, 2].contains($x)`, `[1, 2] $x contains `},
		{`$a <= 1`, `$a 1 <= `}, {`$a >= 1`, `$a 1 >= `}, {`$a > 1`, `$a 1 > `},
		{`$s.matches("a*")`, `$s "a*" matches `}, {`$s.ends_with("z")`, `$s "z" ends_with `},
		{`[1].union([2]) == [1, 2]`, `[1] [2] union [1, 2] == `},
		{`[1].intersection([2]).length() == 0`, `[1] [2] intersection len 0 == `},
		// layout: the tokens of the documented grammar do not depend on blanks
		{`$x -3 -2 < 10`, `$x 3 - 2 - 10 < `}, {`$x-3-2<10`, `$x 3 - 2 - 10 < `},
		{`1+2*3==7`, `1 2 3 * + 7 == `}, {`$a<=1||$b>=2&&$c<3`, `$a 1 <= $b 2 >= $c 3 < && || `},
	}
	for _, c := range corpus {
		chk, err := FromStringCheck("check if " + c.src)
		if err != nil || len(chk.Queries) != 1 || len(chk.Queries[0].Expressions) != 1 {
			fmt.Printf("REPRODUCED: %q of the documented grammar is not parsed into one expression (err=%v)\n", c.src, err)
			t.Fail()
			return
		}
		if got := govcRender(chk.Queries[0].Expressions[0]); got != c.want {
			fmt.Printf("REPRODUCED: %q parses to postfix %q, the documented precedence gives %q\n", c.src, got, c.want)
			t.Fail()
			return
		}
	}
	fmt.Println("NOT-REPRODUCED: the expression corpus parses to the documented postfix forms")
}

// TestGovcReplayDateLiterals: C14 — a date literal is RFC 3339 text: with a zone
// designator it is accepted, without one (or otherwise malformed) it is reported.
func TestGovcReplayDateLiterals(t *testing.T) {
	for _, good := range []string{"2030-12-31T12:59:59Z", "2030-12-31T12:59:59+07:00", "2019-12-04T09:46:41.5Z"} {
		if _, err := FromStringFact("time(" + good + ")"); err != nil {
			fmt.Printf("REPRODUCED: the RFC 3339 date literal %s is refused: %v\n", good, err)
			t.Fail()
			return
		}
	}
	for _, bad := range []string{"2030-12-31T12:59:59", "2030-12-31T12:59:59.5", "2030-13-31T12:59:59Z"} {
		if f, err := FromStringFact("time(" + bad + ")"); err == nil {
			fmt.Printf("REPRODUCED: the malformed date literal %s (not RFC 3339) is accepted as %v\n", bad, f)
			t.Fail()
			return
		}
		if _, err := FromStringCheck("check if time($t), $t <= " + bad); err == nil {
			fmt.Printf("REPRODUCED: the malformed date literal %s (not RFC 3339) is accepted inside an expression\n", bad)
			t.Fail()
			return
		}
	}
	fmt.Println("NOT-REPRODUCED: date literals are accepted exactly when they are RFC 3339 text (corpus of 6)")
}
