package datalog

// Replay templates for the stranding obligations of property C11 (kind
// "strand"): they have no solver model — the failing input is a schedule — so
// the template builds the smallest program that takes the return the obligation
// names and then inspects the goroutine dump of the REAL code.

import (
	"fmt"
	"runtime"
	"strings"
	"testing"
	"time"
)

// govcBlockedIn counts goroutines whose stack contains fn and that are blocked
// in a channel send.
func govcBlockedIn(fn string) int {
	buf := make([]byte, 1<<20)
	n := runtime.Stack(buf, true)
	cnt := 0
	for _, g := range strings.Split(string(buf[:n]), "\n\n") {
		if strings.Contains(g, fn) && strings.Contains(strings.SplitN(g, "\n", 2)[0], "chan send") {
			cnt++
		}
	}
	return cnt
}

// govcStaysBlocked: the goroutine is still blocked in the same send after the
// function that started it has returned and time has passed (nothing can ever
// receive: the channel is unreachable from the caller).
func govcStaysBlocked(fn string) bool {
	for i := 0; i < 3; i++ {
		time.Sleep(100 * time.Millisecond)
		if govcBlockedIn(fn) == 0 {
			return false
		}
	}
	return true
}

// Rule.Apply returns InvalidRuleError (head variable not bound by the body) on
// the first combination; with two or more combinations the producer started by
// combine() is left blocked on its second send.
func TestGovcReplayStrandApply(t *testing.T) {
	syms := &SymbolTable{}
	p := syms.Insert("p")
	q := syms.Insert("q")
	facts := &FactSet{}
	facts.Insert(Fact{Predicate{Name: p, Terms: []Term{Integer(1)}}})
	facts.Insert(Fact{Predicate{Name: p, Terms: []Term{Integer(2)}}})
	rule := Rule{
		Head: Predicate{Name: q, Terms: []Term{Variable(7)}}, // $7 does not occur in the body
		Body: []Predicate{{Name: p, Terms: []Term{Variable(0)}}},
	}
	before := govcBlockedIn("datalog.combine.func1")
	newFacts := &FactSet{}
	err := rule.Apply(facts, newFacts, syms)
	if _, ok := err.(InvalidRuleError); !ok {
		fmt.Printf("NOT-REPRODUCED: Apply returned %v, expected InvalidRuleError\n", err)
		return
	}
	if govcStaysBlocked("datalog.combine.func1") && govcBlockedIn("datalog.combine.func1") > before {
		fmt.Printf("REPRODUCED: after Rule.Apply returned %q a goroutine running datalog.combine.func1 stays blocked in a channel send (facts p(1), p(2); rule q($7) <- p($0))\n", err.Error())
		t.Fail()
		return
	}
	fmt.Println("NOT-REPRODUCED: no goroutine of combine is left blocked after Apply returned")
}

// World.Run returns ErrWorldRunLimitTimeout when the deadline passes; the
// goroutine running the fixpoint loop then sends its verdict on an unbuffered
// channel nobody reads any more.
func TestGovcReplayStrandRun(t *testing.T) {
	for _, n := range []int{150, 300, 600} {
		for _, d := range []time.Duration{200 * time.Microsecond, time.Millisecond, 5 * time.Millisecond} {
			syms := &SymbolTable{}
			p := syms.Insert("p")
			q := syms.Insert("q")
			// one iteration only: the loop falls through to the final send
			w := NewWorld(WithMaxDuration(d), WithMaxIterations(1), WithMaxFacts(1<<30))
			for i := 0; i < n; i++ {
				w.AddFact(Fact{Predicate{Name: p, Terms: []Term{Integer(i)}}})
			}
			// q(x, y) <- p(x), p(y): n*n combinations, long enough for the deadline to pass
			w.AddRule(Rule{
				Head: Predicate{Name: q, Terms: []Term{Variable(0), Variable(1)}},
				Body: []Predicate{{Name: p, Terms: []Term{Variable(0)}}, {Name: p, Terms: []Term{Variable(1)}}},
			})
			before := govcBlockedIn("datalog.(*World).Run.func1")
			err := w.Run(syms)
			if err != ErrWorldRunLimitTimeout {
				continue
			}
			// wait for the goroutine to finish its iteration
			deadline := time.Now().Add(20 * time.Second)
			for time.Now().Before(deadline) && govcBlockedIn("datalog.(*World).Run.func1") <= before {
				time.Sleep(20 * time.Millisecond)
			}
			if govcBlockedIn("datalog.(*World).Run.func1") > before && govcStaysBlocked("datalog.(*World).Run.func1") {
				fmt.Printf("REPRODUCED: after World.Run returned %q the goroutine running the fixpoint loop stays blocked sending its verdict (facts p(0..%d), rule q($0,$1) <- p($0), p($1), maxDuration %v, maxIterations 1)\n", err.Error(), n-1, d)
				t.Fail()
				return
			}
		}
	}
	fmt.Println("NOT-REPRODUCED: no goroutine of World.Run is left blocked after a timeout")
}

// ---- C05: join soundness / completeness against a brute-force reference -------

// govcRefApply: all head instances of rule r over facts, by enumerating every
// assignment of the rule's variables to terms occurring in the facts.
func govcRefApply(r Rule, facts []Fact) map[string]bool {
	varSet := map[Variable]bool{}
	for _, p := range r.Body {
		for _, t := range p.Terms {
			if v, ok := t.(Variable); ok {
				varSet[v] = true
			}
		}
	}
	var vars []Variable
	for v := range varSet {
		vars = append(vars, v)
	}
	var consts []Term
	seen := map[string]bool{}
	for _, f := range facts {
		for _, t := range f.Predicate.Terms {
			if !seen[t.String()] {
				seen[t.String()] = true
				consts = append(consts, t)
			}
		}
	}
	out := map[string]bool{}
	asg := map[Variable]Term{}
	var rec func(i int)
	rec = func(i int) {
		if i == len(vars) {
			for _, p := range r.Body {
				found := false
				for _, f := range facts {
					if f.Predicate.Name != p.Name || len(f.Predicate.Terms) != len(p.Terms) {
						continue
					}
					ok := true
					for j, t := range p.Terms {
						want := t
						if v, isVar := t.(Variable); isVar {
							want = asg[v]
						}
						if !want.Equal(f.Predicate.Terms[j]) {
							ok = false
						}
					}
					if ok {
						found = true
					}
				}
				if !found {
					return
				}
			}
			head := fmt.Sprintf("%d(", r.Head.Name)
			for _, t := range r.Head.Terms {
				if v, isVar := t.(Variable); isVar {
					t = asg[v]
				}
				head += t.String() + ","
			}
			out[head+")"] = true
			return
		}
		for _, c := range consts {
			asg[vars[i]] = c
			rec(i + 1)
		}
	}
	if len(vars) == 0 || len(consts) > 0 {
		rec(0)
	}
	return out
}

func TestGovcReplayJoin(t *testing.T) {
	edge, pair, out := String(1030), String(1031), String(1032)
	facts := []Fact{
		{Predicate{Name: edge, Terms: []Term{Integer(1), Integer(2)}}},
		{Predicate{Name: edge, Terms: []Term{Integer(2), Integer(3)}}},
		{Predicate{Name: edge, Terms: []Term{Integer(3), Integer(3)}}},
		{Predicate{Name: pair, Terms: []Term{Integer(3), Integer(30)}}},
		{Predicate{Name: pair, Terms: []Term{Integer(2), Integer(20)}}},
	}
	x, y, z := Variable(0), Variable(1), Variable(2)
	rules := []Rule{
		{Head: Predicate{Name: out, Terms: []Term{x}}, Body: []Predicate{{Name: edge, Terms: []Term{x, x}}}},
		{Head: Predicate{Name: out, Terms: []Term{x, y}}, Body: []Predicate{{Name: edge, Terms: []Term{x, x}}, {Name: pair, Terms: []Term{x, y}}}},
		{Head: Predicate{Name: out, Terms: []Term{x, z}}, Body: []Predicate{{Name: edge, Terms: []Term{x, y}}, {Name: edge, Terms: []Term{y, z}}}},
		{Head: Predicate{Name: out, Terms: []Term{y}}, Body: []Predicate{{Name: pair, Terms: []Term{x, y}}, {Name: edge, Terms: []Term{x, x}}}},
		{Head: Predicate{Name: out, Terms: []Term{x}}, Body: []Predicate{{Name: edge, Terms: []Term{x, Integer(3)}}}},
	}
	for rot := 0; rot < len(facts); rot++ {
		fs := FactSet(append(append([]Fact{}, facts[rot:]...), facts[:rot]...))
		for ri, r := range rules {
			want := govcRefApply(r, fs)
			got := &FactSet{}
			if err := r.Apply(&fs, got, &SymbolTable{}); err != nil {
				fmt.Printf("NOT-REPRODUCED: Apply error %v\n", err)
				return
			}
			gotSet := map[string]bool{}
			for _, f := range *got {
				s := fmt.Sprintf("%d(", f.Predicate.Name)
				for _, tm := range f.Predicate.Terms {
					s += tm.String() + ","
				}
				gotSet[s+")"] = true
			}
			for k := range gotSet {
				if !want[k] {
					fmt.Printf("REPRODUCED: rule #%d over fact rotation %d derives %s, which no consistent substitution of the body produces (reference: %v)\n", ri, rot, k, want)
					t.Fail()
					return
				}
			}
			for k := range want {
				if !gotSet[k] {
					fmt.Printf("REPRODUCED: rule #%d over fact rotation %d misses %s (reference: %v, got %v)\n", ri, rot, k, want, gotSet)
					t.Fail()
					return
				}
			}
		}
	}
	// fewer facts than body predicates: a self-join can still match
	{
		fs := FactSet{{Predicate{Name: edge, Terms: []Term{Integer(1), Integer(1)}}}}
		r := rules[2]
		want := govcRefApply(r, fs)
		got := &FactSet{}
		if err := r.Apply(&fs, got, &SymbolTable{}); err != nil || len(*got) != len(want) {
			fmt.Printf("REPRODUCED: rule out($x,$z) <- edge($x,$y), edge($y,$z) over the single fact edge(1,1) derives %d facts (err=%v), the reference derives %v\n", len(*got), err, want)
			t.Fail()
			return
		}
	}
	fmt.Println("NOT-REPRODUCED: rule application agrees with the brute-force reference on the join corpus")
}

// TestGovcReplayEvaluateUnbound: C10/C06 — an expression over a variable that the
// bindings do not contain must be an error, never a panic.
func TestGovcReplayEvaluateUnbound(t *testing.T) {
	for _, e := range []Expression{
		{Value{Variable(1)}},
		{Value{Variable(1)}, Value{Integer(1)}, BinaryOp{Equal{}}},
		{Value{Integer(1)}, Value{Variable(9)}, BinaryOp{Add{}}},
	} {
		var perr interface{}
		var res Term
		var err error
		func() {
			defer func() { perr = recover() }()
			res, err = e.Evaluate(map[Variable]*Term{}, &SymbolTable{})
		}()
		if perr != nil {
			fmt.Printf("REPRODUCED: Evaluate of an expression over an unbound variable panics: %v\n", perr)
			t.Fail()
			return
		}
		if err == nil {
			fmt.Printf("REPRODUCED: Evaluate of an expression over an unbound variable returns %v without an error\n", res)
			t.Fail()
			return
		}
	}
	fmt.Println("NOT-REPRODUCED: unbound variables are reported as errors")
}
