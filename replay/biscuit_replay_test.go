package biscuit

// Replay templates for obligations of package biscuit (injected with
// `go test -overlay`; never written into /repo). Each test searches, on the REAL
// code, the input family relevant to the failed obligation named in
// GOVC_OBLIGATION and prints "REPRODUCED: ..." when the code misbehaves.

import (
	"github.com/biscuit-auth/biscuit-go/v2/datalog"
	"github.com/biscuit-auth/biscuit-go/v2/pb"
	"bytes"
	"crypto/ed25519"
	"crypto/rand"
	"errors"
	"fmt"
	"os"
	"strings"
	"testing"
	"time"
)

func govcToken(t *testing.T, opts ...builderOption) (*Biscuit, ed25519.PublicKey) {
	pub, priv, _ := ed25519.GenerateKey(rand.Reader)
	b := NewBuilder(priv, opts...)
	b.AddAuthorityFact(Fact{Predicate: Predicate{Name: "right", IDs: []Term{String("/a/file1"), String("read")}}})
	tok, err := b.Build()
	if err != nil {
		t.Fatalf("build: %v", err)
	}
	return tok, pub
}

func govcBlock(tok *Biscuit, name string) *Block {
	bb := tok.CreateBlock()
	bb.AddCheck(Check{Queries: []Rule{{Head: Predicate{Name: "q"}, Body: []Predicate{{Name: name, IDs: []Term{Integer(1)}}}}}})
	return bb.Build()
}

// TestGovcReplayKeyID: C16 — the root key id must survive Append and Seal.
func TestGovcReplayKeyID(t *testing.T) {
	for _, id := range []uint32{0, 7, 1<<32 - 1} {
		tok, _ := govcToken(t, WithRootKeyID(id))
		if k := tok.RootKeyID(); k == nil || *k != id {
			fmt.Printf("REPRODUCED: token built WithRootKeyID(%d) reports %v\n", id, k)
			t.Fail()
			return
		}
		app, err := tok.Append(rand.Reader, govcBlock(tok, "foo"))
		if err == nil && strings.Contains(os.Getenv("GOVC_OBLIGATION"), "Append") {
			if k := app.RootKeyID(); k == nil || *k != id {
				fmt.Printf("REPRODUCED: token built WithRootKeyID(%d); after Append RootKeyID() = %v (identifier dropped)\n", id, k)
				t.Fail()
				return
			}
		}
		sealed, err := tok.Seal(rand.Reader)
		if err == nil && strings.Contains(os.Getenv("GOVC_OBLIGATION"), "Seal") {
			if k := sealed.RootKeyID(); k == nil || *k != id {
				fmt.Printf("REPRODUCED: token built WithRootKeyID(%d); after Seal RootKeyID() = %v (identifier dropped)\n", id, k)
				t.Fail()
				return
			}
		}
	}
	// a token created without an identifier must stay without one
	{
		tok, _ := govcToken(t)
		if app, err := tok.Append(rand.Reader, govcBlock(tok, "foo")); err == nil {
			if k := app.RootKeyID(); k != nil {
				fmt.Printf("REPRODUCED: token built without a root key id; after Append RootKeyID() = %d (an identifier appeared)\n", *k)
				t.Fail()
				return
			}
		}
		if sealed, err := tok.Seal(rand.Reader); err == nil {
			if k := sealed.RootKeyID(); k != nil {
				fmt.Printf("REPRODUCED: token built without a root key id; after Seal RootKeyID() = %d (an identifier appeared)\n", *k)
				t.Fail()
				return
			}
		}
	}
	fmt.Println("NOT-REPRODUCED: the root key id survives Append and Seal for 0, 7, 2^32-1 and for no id")
}

type govcFailingReader struct {
	n, limit int
}

func (r *govcFailingReader) Read(p []byte) (int, error) {
	k := 0
	for k < len(p) && r.n < r.limit {
		p[k] = byte(r.n)
		k++
		r.n++
	}
	if k < len(p) {
		return k, errors.New("entropy source failed")
	}
	return k, nil
}

// TestGovcReplayEntropy: C20 — a random source failing after k < 32 bytes.
func TestGovcReplayEntropy(t *testing.T) {
	_, priv, _ := ed25519.GenerateKey(rand.Reader)
	for k := 0; k < 32; k++ {
		var got *Biscuit
		var err error
		p := func() (p interface{}) {
			defer func() { p = recover() }()
			if strings.Contains(os.Getenv("GOVC_OBLIGATION"), "Append") {
				tok, _ := govcToken(t)
				got, err = tok.Append(&govcFailingReader{limit: k}, govcBlock(tok, "foo"))
			} else {
				b := NewBuilder(priv, WithRNG(&govcFailingReader{limit: k}))
				got, err = b.Build()
			}
			return nil
		}()
		if p != nil {
			fmt.Printf("REPRODUCED: random source failing after %d bytes: panic: %v\n", k, p)
			t.Fail()
			return
		}
		if err == nil || got != nil {
			fmt.Printf("REPRODUCED: random source failing after %d bytes: returned token=%v err=%v\n", k, got != nil, err)
			t.Fail()
			return
		}
	}
	fmt.Println("no failing input found")
}

// TestGovcReplaySharedCapacity: C19/C08 — operations on a shared token must not
// write memory reachable from it. The stored block bytes are given spare
// capacity (as a decoder or arena allocator may) and watched across the call.
func TestGovcReplaySharedCapacity(t *testing.T) {
	tok, pub := govcToken(t)
	orig := tok.container.Authority.Block
	buf := make([]byte, len(orig), len(orig)+256)
	copy(buf, orig)
	spare := buf[len(orig):cap(buf)]
	for i := range spare {
		spare[i] = 0xAA
	}
	tok.container.Authority.Block = buf
	want := bytes.Repeat([]byte{0xAA}, len(spare))
	ob := os.Getenv("GOVC_OBLIGATION")
	if strings.Contains(ob, "Seal") {
		tok.Seal(rand.Reader)
	} else {
		tok.Authorizer(pub)
	}
	if !bytes.Equal(spare, want) {
		fmt.Printf("REPRODUCED: the call wrote %d bytes into the spare capacity of the token's stored block bytes (shared memory written; a data race when two goroutines share the token)\n", govcDiff(spare, want))
		t.Fail()
		return
	}
	fmt.Println("no failing input found")
}

func govcDiff(a, b []byte) int {
	n := 0
	for i := range a {
		if i >= len(b) || a[i] != b[i] {
			n++
		}
	}
	if len(b) > len(a) {
		n += len(b) - len(a)
	}
	return n
}

// TestGovcReplaySiblings: C08 — two blocks derived from the same parent.
func TestGovcReplaySiblings(t *testing.T) {
	for extra := 0; extra < 6; extra++ {
		pubk, priv, _ := ed25519.GenerateKey(rand.Reader)
		_ = pubk
		b := NewBuilder(priv)
		for i := 0; i <= extra; i++ {
			b.AddAuthorityFact(Fact{Predicate: Predicate{Name: fmt.Sprintf("sym%d", i), IDs: []Term{Integer(1)}}})
		}
		parent, err := b.Build()
		if err != nil {
			t.Fatal(err)
		}
		c1, err := parent.Append(rand.Reader, govcBlock(parent, "foo"))
		if err != nil {
			t.Fatal(err)
		}
		before := c1.String()
		if _, err := parent.Append(rand.Reader, govcBlock(parent, "bar")); err != nil {
			t.Fatal(err)
		}
		after := c1.String()
		if before != after {
			fmt.Printf("REPRODUCED: parent with %d symbols (len %d, cap %d): after a second Append on the parent, the first child prints differently:\n  before: %q\n  after:  %q\n", len(*parent.symbols), len(*parent.symbols), cap(*parent.symbols), govcFind(before, "check if"), govcFind(after, "check if"))
			t.Fail()
			return
		}
	}
	fmt.Println("no failing input found")
}

func govcFind(s, sub string) string {
	i := strings.LastIndex(s, sub)
	if i < 0 {
		return ""
	}
	e := i + 40
	if e > len(s) {
		e = len(s)
	}
	return s[i:e]
}

// TestGovcReplayShortSecret: C10 — a serialized token whose proof carries a
// next secret that is not 32 bytes long.
func TestGovcReplayShortSecret(t *testing.T) {
	for _, n := range []int{0, 1, 3, 31, 33, 64} {
		tok, pub := govcToken(t)
		if n == 0 {
			continue // an empty secret decodes to a sealed-looking proof; covered by n >= 1
		}
		tok.container.Proof.Content.(*pb.Proof_NextSecret).NextSecret = bytes.Repeat([]byte{7}, n)
		ser, err := tok.Serialize()
		if err != nil {
			t.Fatal(err)
		}
		p := func() (p interface{}) {
			defer func() { p = recover() }()
			got, err := Unmarshal(ser)
			if err != nil {
				return nil
			}
			got.Authorizer(pub)
			return nil
		}()
		if p != nil {
			fmt.Printf("REPRODUCED: serialized token with a %d-byte next secret: Unmarshal succeeds and Authorizer(pub) panics: %v\n", n, p)
			t.Fail()
			return
		}
	}
	fmt.Println("no failing input found")
}

// TestGovcReplayAuthorizerOptions: C11 — limits given to an entry point that
// accepts options must be honoured by it.
func TestGovcReplayAuthorizerOptions(t *testing.T) {
	tok, pub := govcToken(t)
	for _, max := range []int{1, 2} {
		opt := WithWorldOptions(datalog.WithMaxFacts(max))
		run := func(a Authorizer, err error) error {
			if err != nil {
				return err
			}
			a.AddFact(Fact{Predicate: Predicate{Name: "x", IDs: []Term{Integer(1)}}})
			a.AddFact(Fact{Predicate: Predicate{Name: "y", IDs: []Term{Integer(2)}}})
			a.AddPolicy(DefaultAllowPolicy)
			return a.Authorize()
		}
		e1 := run(tok.AuthorizerFor(WithSingularRootPublicKey(pub), opt))
		e2 := run(tok.Authorizer(pub, opt))
		if (e1 == nil) != (e2 == nil) {
			fmt.Printf("REPRODUCED: WithMaxFacts(%d): AuthorizerFor(...,opt) -> %v but Authorizer(pub, opt) -> %v (the option is ignored by Authorizer)\n", max, e1, e2)
			t.Fail()
			return
		}
	}
	fmt.Println("no failing input found")
}

// TestGovcReplayResetLeak: C13 — after Reset an authorizer must behave like a
// newly created one for the same token. The failed obligations say Authorize
// writes v.baseWorld / v.baseSymbols (the state Reset restores): a request that
// is accepted leaves its facts behind for every later request.
func TestGovcReplayResetLeak(t *testing.T) {
	tok, pub := govcToken(t)
	allowIfOp := Policy{Kind: PolicyKindAllow, Queries: []Rule{{
		Head: Predicate{Name: "allow"},
		Body: []Predicate{{Name: "operation", IDs: []Term{String("read")}}},
	}}}
	run := func(a Authorizer, withFact bool) error {
		if withFact {
			a.AddFact(Fact{Predicate: Predicate{Name: "operation", IDs: []Term{String("read")}}})
		}
		a.AddPolicy(allowIfOp)
		return a.Authorize()
	}
	used, err := tok.Authorizer(pub)
	if err != nil {
		t.Fatalf("authorizer: %v", err)
	}
	if err := run(used, true); err != nil {
		fmt.Printf("NOT-REPRODUCED: first request (with operation(\"read\")) was refused: %v\n", err)
		return
	}
	used.Reset()
	afterReset := run(used, false)
	fresh, _ := tok.Authorizer(pub)
	fromFresh := run(fresh, false)
	if (afterReset == nil) != (fromFresh == nil) {
		fmt.Printf("REPRODUCED: request 1 adds operation(\"read\") and is accepted; after Reset, request 2 (no operation fact, policy 'allow if operation(\"read\")') returns %v on the reset authorizer but %v on a new authorizer for the same token\n", afterReset, fromFresh)
		t.Fail()
		return
	}
	// second family: each round names a different resource; the token's own facts must
	// be read through the symbols of the current round (nothing interned by an earlier
	// round may be remembered)
	rightsPolicy := Policy{Kind: PolicyKindAllow, Queries: []Rule{{
		Head: Predicate{Name: "allow"},
		Body: []Predicate{
			{Name: "resource", IDs: []Term{Variable("f")}},
			{Name: "right", IDs: []Term{Variable("f"), String("read")}},
		},
	}}}
	round := func(a Authorizer, resource string) error {
		a.AddFact(Fact{Predicate: Predicate{Name: "resource", IDs: []Term{String(resource)}}})
		a.AddPolicy(rightsPolicy)
		return a.Authorize()
	}
	for _, seq := range [][]string{{"/a/file1", "/a/file2"}, {"/a/file2", "/a/file1"}, {"/x", "/y", "/a/file1", "/z"}} {
		reused, err := tok.Authorizer(pub, WithWorldOptions(datalog.WithMaxDuration(10*time.Second)))
		if err != nil {
			t.Fatalf("authorizer: %v", err)
		}
		for i, res := range seq {
			if i > 0 {
				reused.Reset()
			}
			got := round(reused, res)
			fresh, _ := tok.Authorizer(pub, WithWorldOptions(datalog.WithMaxDuration(10*time.Second)))
			want := round(fresh, res)
			if (got == nil) != (want == nil) {
				fmt.Printf("REPRODUCED: token grants right(\"/a/file1\",\"read\"); rounds %v separated by Reset: round %d (resource %q) returns %v on the reused authorizer but %v on a new authorizer\n", seq, i+1, res, got, want)
				t.Fail()
				return
			}
		}
	}
	fmt.Println("NOT-REPRODUCED: reset authorizer and new authorizer agree")
}

// TestGovcReplayBlockScoping: C03/C04 — each later block's checks see the
// authority-level facts plus that block's own facts, and nothing of any other block.
func TestGovcReplayBlockScoping(t *testing.T) {
	scope := func(s string) Fact { return Fact{Predicate: Predicate{Name: "scope", IDs: []Term{String(s)}}} }
	checkScope := func(s string) Check {
		return Check{Queries: []Rule{{Head: Predicate{Name: "q"}, Body: []Predicate{{Name: "scope", IDs: []Term{String(s)}}}}}}
	}
	for nAuth := 1; nAuth <= 10; nAuth++ {
		for _, crossCheck := range []bool{false, true} {
			pub, priv, _ := ed25519.GenerateKey(rand.Reader)
			b := NewBuilder(priv)
			for i := 0; i < nAuth; i++ {
				b.AddAuthorityFact(Fact{Predicate: Predicate{Name: "right", IDs: []Term{Integer(int64(i))}}})
			}
			tok, err := b.Build()
			if err != nil {
				t.Fatalf("build: %v", err)
			}
			bb := tok.CreateBlock()
			bb.AddFact(scope("one"))
			if crossCheck {
				bb.AddCheck(checkScope("two")) // must fail: scope("two") belongs to block 2 only
			} else {
				bb.AddCheck(checkScope("one")) // must pass: the block's own fact
			}
			tok, err = tok.Append(rand.Reader, bb.Build())
			if err != nil {
				t.Fatalf("append: %v", err)
			}
			bb = tok.CreateBlock()
			bb.AddFact(scope("two"))
			bb.AddCheck(checkScope("two"))
			tok, err = tok.Append(rand.Reader, bb.Build())
			if err != nil {
				t.Fatalf("append: %v", err)
			}
			a, err := tok.Authorizer(pub)
			if err != nil {
				t.Fatalf("authorizer: %v", err)
			}
			a.AddPolicy(DefaultAllowPolicy)
			err = a.Authorize()
			if crossCheck && err == nil {
				fmt.Printf("REPRODUCED: with %d authority facts, block 1's 'check if scope(\"two\")' passes although only block 2 defines scope(\"two\")\n", nAuth)
				t.Fail()
				return
			}
			if !crossCheck && err != nil {
				fmt.Printf("REPRODUCED: with %d authority facts, block 1's 'check if scope(\"one\")' fails although block 1 defines that fact: %v\n", nAuth, err)
				t.Fail()
				return
			}
		}
	}
	// a block that carries only a rule: what the rule derives must not reach a later block
	{
		pub, priv, _ := ed25519.GenerateKey(rand.Reader)
		b := NewBuilder(priv)
		b.AddAuthorityFact(Fact{Predicate: Predicate{Name: "user", IDs: []Term{String("alice")}}})
		tok, _ := b.Build()
		bb := tok.CreateBlock()
		bb.AddRule(Rule{Head: Predicate{Name: "admin", IDs: []Term{Variable("u")}}, Body: []Predicate{{Name: "user", IDs: []Term{Variable("u")}}}})
		tok, _ = tok.Append(rand.Reader, bb.Build())
		bb = tok.CreateBlock()
		bb.AddCheck(Check{Queries: []Rule{{Head: Predicate{Name: "q"}, Body: []Predicate{{Name: "admin", IDs: []Term{String("alice")}}}}}})
		tok, _ = tok.Append(rand.Reader, bb.Build())
		a, err := tok.Authorizer(pub)
		if err != nil {
			t.Fatalf("authorizer: %v", err)
		}
		a.AddPolicy(DefaultAllowPolicy)
		if err := a.Authorize(); err == nil {
			fmt.Println("REPRODUCED: authority user(\"alice\"); block 1 carries only the rule admin($u) <- user($u); block 2's 'check if admin(\"alice\")' passes: a fact derived inside block 1 reached block 2")
			t.Fail()
			return
		}
	}
	// the same check text in two blocks: it holds in the block that defines the fact and
	// must be evaluated again, and fail, in the block that does not (both orders); the
	// authority facts leave spare capacity in the fact slice (several sizes)
	for nAuth := 1; nAuth <= 9; nAuth++ {
		for _, definingFirst := range []bool{true, false} {
			pub, priv, _ := ed25519.GenerateKey(rand.Reader)
			b := NewBuilder(priv)
			for i := 0; i < nAuth; i++ {
				b.AddAuthorityFact(Fact{Predicate: Predicate{Name: "right", IDs: []Term{Integer(int64(i))}}})
			}
			tok, _ := b.Build()
			for k := 0; k < 2; k++ {
				bb := tok.CreateBlock()
				if (k == 0) == definingFirst {
					bb.AddFact(scope("one"))
				}
				bb.AddCheck(checkScope("one"))
				tok, _ = tok.Append(rand.Reader, bb.Build())
			}
			a, err := tok.Authorizer(pub, WithWorldOptions(datalog.WithMaxDuration(10*time.Second)))
			if err != nil {
				t.Fatalf("authorizer: %v", err)
			}
			a.AddPolicy(DefaultAllowPolicy)
			if err := a.Authorize(); err == nil {
				fmt.Printf("REPRODUCED: %d authority facts; two blocks carry 'check if scope(\"one\")' and only one of them (the %s) defines scope(\"one\"): the token is accepted, the other block's check must fail in its own scope\n", nAuth, map[bool]string{true: "first", false: "second"}[definingFirst])
				t.Fail()
				return
			}
		}
	}
	fmt.Println("NOT-REPRODUCED: block checks see exactly the authority facts and their own block's facts")
}

// TestGovcReplayFork: C07/C08/C17/C19 — two tokens attenuated from the same parent are
// independent: creating the second must not change the first one's bytes,
// revocation identifiers or verification, whatever the parent's depth.
func TestGovcReplayFork(t *testing.T) {
	for depth := 0; depth <= 8; depth++ {
		pub, priv, _ := ed25519.GenerateKey(rand.Reader)
		b := NewBuilder(priv)
		b.AddAuthorityFact(Fact{Predicate: Predicate{Name: "right", IDs: []Term{String("read")}}})
		parent, err := b.Build()
		if err != nil {
			t.Fatal(err)
		}
		for i := 0; i < depth; i++ {
			parent, err = parent.Append(rand.Reader, govcBlock(parent, fmt.Sprintf("p%d", i)))
			if err != nil {
				t.Fatal(err)
			}
		}
		parentBytes, _ := parent.Serialize()
		c1, err := parent.Append(rand.Reader, govcBlock(parent, "left"))
		if err != nil {
			t.Fatal(err)
		}
		if after, _ := parent.Serialize(); !bytes.Equal(parentBytes, after) {
			fmt.Printf("REPRODUCED: parent with %d appended blocks: Append changed the parent itself (%d bytes of its serialized form differ)\n", depth, govcDiff(parentBytes, after))
			t.Fail()
			return
		}
		if _, err := parent.Authorizer(pub); err != nil {
			fmt.Printf("REPRODUCED: parent with %d appended blocks no longer verifies after Append was called on it: %v\n", depth, err)
			t.Fail()
			return
		}
		bytes1, _ := c1.Serialize()
		ids1 := c1.RevocationIds()
		last1 := append([]byte{}, ids1[len(ids1)-1]...)
		if _, err := parent.Append(rand.Reader, govcBlock(parent, "right")); err != nil {
			t.Fatal(err)
		}
		bytes2, _ := c1.Serialize()
		ids2 := c1.RevocationIds()
		if !bytes.Equal(bytes1, bytes2) {
			fmt.Printf("REPRODUCED: parent with %d appended blocks: after a second Append on the parent, the first child serializes differently (%d bytes differ)\n", depth, govcDiff(bytes1, bytes2))
			t.Fail()
			return
		}
		if !bytes.Equal(last1, ids2[len(ids2)-1]) {
			fmt.Printf("REPRODUCED: parent with %d appended blocks: the first child's last revocation identifier changed after a sibling was created\n", depth)
			t.Fail()
			return
		}
		if _, err := c1.Authorizer(pub); err != nil {
			fmt.Printf("REPRODUCED: parent with %d appended blocks: the first child no longer verifies after a sibling was created: %v\n", depth, err)
			t.Fail()
			return
		}
	}
	fmt.Println("NOT-REPRODUCED: siblings stay independent at every depth tried")
}

// TestGovcReplayPolicyOrder: C04 — the first policy, in insertion order, that has a
// satisfied query decides; later policies are not consulted.
func TestGovcReplayPolicyOrder(t *testing.T) {
	tok, pub := govcToken(t)
	matchAll := []Rule{{Head: Predicate{Name: "p"}, Body: []Predicate{{Name: "right", IDs: []Term{Variable("f"), Variable("op")}}}}}
	matchNone := []Rule{{Head: Predicate{Name: "p"}, Body: []Predicate{{Name: "nothing", IDs: []Term{Integer(1)}}}}}
	allow := func(q []Rule) Policy { return Policy{Kind: PolicyKindAllow, Queries: q} }
	deny := func(q []Rule) Policy { return Policy{Kind: PolicyKindDeny, Queries: q} }
	cases := []struct {
		name     string
		policies []Policy
		want     error
	}{
		{"deny then allow", []Policy{deny(matchAll), allow(matchAll)}, ErrPolicyDenied},
		{"allow then deny", []Policy{allow(matchAll), deny(matchAll)}, nil},
		{"non-matching allow, deny, allow", []Policy{allow(matchNone), deny(matchAll), allow(matchAll)}, ErrPolicyDenied},
		{"non-matching deny, allow, deny", []Policy{deny(matchNone), allow(matchAll), deny(matchAll)}, nil},
		{"nothing matches", []Policy{allow(matchNone), deny(matchNone)}, ErrNoMatchingPolicy},
	}
	for _, c := range cases {
		a, err := tok.Authorizer(pub)
		if err != nil {
			t.Fatalf("authorizer: %v", err)
		}
		for _, p := range c.policies {
			a.AddPolicy(p)
		}
		if got := a.Authorize(); got != c.want {
			fmt.Printf("REPRODUCED: policies [%s] on a token with right(\"/a/file1\",\"read\"): Authorize returns %v, the first matching policy gives %v\n", c.name, got, c.want)
			t.Fail()
			return
		}
	}
	// check failure takes precedence over the policy result: a later block's check fails
	// while a deny (or no) policy matches
	for _, c := range []struct {
		name     string
		policies []Policy
	}{
		{"deny then allow", []Policy{deny(matchAll), allow(matchAll)}},
		{"nothing matches", []Policy{allow(matchNone)}},
		{"allow", []Policy{allow(matchAll)}},
	} {
		bb := tok.CreateBlock()
		bb.AddCheck(Check{Queries: []Rule{{Head: Predicate{Name: "q"}, Body: []Predicate{{Name: "never", IDs: []Term{Integer(7)}}}}}})
		tok2, err := tok.Append(rand.Reader, bb.Build())
		if err != nil {
			t.Fatalf("append: %v", err)
		}
		a, err := tok2.Authorizer(pub)
		if err != nil {
			t.Fatalf("authorizer: %v", err)
		}
		for _, p := range c.policies {
			a.AddPolicy(p)
		}
		got := a.Authorize()
		if got == nil || got == ErrPolicyDenied || got == ErrNoMatchingPolicy || !strings.HasPrefix(got.Error(), "biscuit: verification failed") {
			fmt.Printf("REPRODUCED: block #1 has a failing check and the policies are [%s]: Authorize returns %v, a failed check takes precedence over the policy result\n", c.name, got)
			t.Fail()
			return
		}
	}
	fmt.Println("NOT-REPRODUCED: the first matching policy decides in every order tried, and a failed check precedes it")
}

// TestGovcReplayLimitIdentity: C11 — a run limit hit while evaluating any block must
// surface as the exported sentinel (errors.Is), not as a flattened message.
func TestGovcReplayLimitIdentity(t *testing.T) {
	pub, priv, _ := ed25519.GenerateKey(rand.Reader)
	b := NewBuilder(priv)
	b.AddAuthorityFact(Fact{Predicate: Predicate{Name: "right", IDs: []Term{String("read")}}})
	tok, err := b.Build()
	if err != nil {
		t.Fatal(err)
	}
	bb := tok.CreateBlock()
	for i := 0; i < 4; i++ {
		bb.AddFact(Fact{Predicate: Predicate{Name: "extra", IDs: []Term{Integer(int64(i))}}})
	}
	tok, err = tok.Append(rand.Reader, bb.Build())
	if err != nil {
		t.Fatal(err)
	}
	a, err := tok.Authorizer(pub, WithWorldOptions(datalog.WithMaxFacts(4), datalog.WithMaxIterations(100), datalog.WithMaxDuration(10*time.Second)))
	if err != nil {
		t.Fatal(err)
	}
	a.AddPolicy(DefaultAllowPolicy)
	got := a.Authorize()
	if got == nil {
		fmt.Println("REPRODUCED: a block world above the fact limit (1 authority fact + 4 block facts, limit 4) is authorized")
		t.Fail()
		return
	}
	if !errors.Is(got, datalog.ErrWorldRunLimitMaxFacts) {
		fmt.Printf("REPRODUCED: the fact limit is hit in block 1 but Authorize returns %q, for which errors.Is(err, ErrWorldRunLimitMaxFacts) is false\n", got.Error())
		t.Fail()
		return
	}
	fmt.Println("NOT-REPRODUCED: a limit hit in a later block is reported as the sentinel error")
}

// TestGovcReplayVersionGate: C07 — a block that does not declare schema version 3
// (absent, 0, 1, 2, 4, 2^32-1) must be rejected by the decoder.
func TestGovcReplayVersionGate(t *testing.T) {
	for _, v := range []*uint32{nil, govcU32(0), govcU32(1), govcU32(2), govcU32(4), govcU32(1<<32 - 1)} {
		blk, err := protoBlockToTokenBlock(&pb.Block{Version: v})
		if err == nil {
			d := "absent"
			if v != nil {
				d = fmt.Sprint(*v)
			}
			fmt.Printf("REPRODUCED: a block whose declared schema version is %s is decoded without error (as version %d)\n", d, blk.version)
			t.Fail()
			return
		}
	}
	fmt.Println("NOT-REPRODUCED: blocks declaring no version, 0, 1, 2, 4 and 2^32-1 are rejected")
}

func govcU32(v uint32) *uint32 { return &v }

// TestGovcReplayKeySelection: C16 — WithRootPublicKeys: a token without an identifier
// and no default key, or with an unknown identifier, gives exactly
// ErrNoPublicKeyAvailable; a registered identifier gives that key; never the default
// for an unknown identifier.
func TestGovcReplayKeySelection(t *testing.T) {
	pubA, _, _ := ed25519.GenerateKey(rand.Reader)
	pubB, _, _ := ed25519.GenerateKey(rand.Reader)
	def := &pubB
	src := WithRootPublicKeys(map[uint32]ed25519.PublicKey{7: pubA}, nil)
	srcDef := WithRootPublicKeys(map[uint32]ed25519.PublicKey{7: pubA}, def)
	id7, id9 := uint32(7), uint32(9)
	if k, err := src(nil); !errors.Is(err, ErrNoPublicKeyAvailable) || k != nil {
		fmt.Printf("REPRODUCED: no identifier and no default key: the key source returns (%v, %v), the specified result is exactly ErrNoPublicKeyAvailable\n", k, err)
		t.Fail()
		return
	}
	for _, s := range []PublickKeyByIDProjection{src, srcDef} {
		if k, err := s(&id9); !errors.Is(err, ErrNoPublicKeyAvailable) || k != nil {
			fmt.Printf("REPRODUCED: unknown identifier 9: the key source returns (%v, %v), the specified result is exactly ErrNoPublicKeyAvailable and never a key\n", k, err)
			t.Fail()
			return
		}
		if k, err := s(&id7); err != nil || !bytes.Equal(k, pubA) {
			fmt.Printf("REPRODUCED: registered identifier 7: the key source returns (%v, %v) instead of the registered key\n", k, err)
			t.Fail()
			return
		}
	}
	if k, err := srcDef(nil); err != nil || !bytes.Equal(k, pubB) {
		fmt.Printf("REPRODUCED: no identifier with a default key: the key source returns (%v, %v) instead of the default key\n", k, err)
		t.Fail()
		return
	}
	fmt.Println("NOT-REPRODUCED: key selection by identifier follows the table for absent/unknown/registered identifiers with and without a default key")
}

// TestGovcReplaySealSymbols: C09 — a token composed over a caller-supplied base symbol
// table authorizes the same before and after Seal.
func TestGovcReplaySealSymbols(t *testing.T) {
	pub, priv, _ := ed25519.GenerateKey(rand.Reader)
	base := &datalog.SymbolTable{"/a/file1", "zzz"}
	b := NewBuilder(priv, WithSymbols(base))
	b.AddAuthorityFact(Fact{Predicate: Predicate{Name: "right", IDs: []Term{String("/a/file1"), String("read")}}})
	tok, err := b.Build()
	if err != nil {
		t.Fatalf("build: %v", err)
	}
	tok, err = tok.Append(rand.Reader, govcFactBlock(tok, "extra", "/b/other"))
	if err != nil {
		t.Fatalf("append: %v", err)
	}
	sealed, err := tok.Seal(rand.Reader)
	if err != nil {
		t.Fatalf("seal: %v", err)
	}
	verdict := func(x *Biscuit) error {
		a, err := x.Authorizer(pub, WithWorldOptions(datalog.WithMaxDuration(10*time.Second)))
		if err != nil {
			return err
		}
		a.AddPolicy(Policy{Kind: PolicyKindAllow, Queries: []Rule{{Head: Predicate{Name: "p"}, Body: []Predicate{
			{Name: "right", IDs: []Term{String("/a/file1"), String("read")}}, {Name: "extra", IDs: []Term{String("/b/other")}}}}}})
		return a.Authorize()
	}
	if e1, e2 := verdict(tok), verdict(sealed); (e1 == nil) != (e2 == nil) {
		fmt.Printf("REPRODUCED: token over the base symbol table %v: Authorize gives %v before Seal and %v after\n", *base, e1, e2)
		t.Fail()
		return
	}
	if s1, s2 := tok.String(), sealed.String(); govcFind(s1, "right(") != govcFind(s2, "right(") {
		fmt.Printf("REPRODUCED: token over the base symbol table %v prints %q before Seal and %q after\n", *base, govcFind(s1, "right("), govcFind(s2, "right("))
		t.Fail()
		return
	}
	fmt.Println("NOT-REPRODUCED: sealing a token over a caller-supplied base symbol table keeps verdict and printed facts")
}

func govcFactBlock(tok *Biscuit, name, arg string) *Block {
	bb := tok.CreateBlock()
	bb.AddFact(Fact{Predicate: Predicate{Name: name, IDs: []Term{String(arg)}}})
	return bb.Build()
}

// TestGovcReplayBuiltBlockIndependent: C08 — a block already built does not change when
// its builder is used again.
func TestGovcReplayBuiltBlockIndependent(t *testing.T) {
	tok, _ := govcToken(t)
	bb := tok.CreateBlock()
	bb.AddCheck(Check{Queries: []Rule{{Head: Predicate{Name: "q"}, Body: []Predicate{{Name: "operation", IDs: []Term{String("read")}}}}}})
	bb.AddFact(Fact{Predicate: Predicate{Name: "one", IDs: []Term{Integer(1)}}})
	first := bb.Build()
	before := first.String(tok.symbols)
	nf, nr, nc := len(*first.facts), len(first.rules), len(first.checks)
	bb.AddFact(Fact{Predicate: Predicate{Name: "operation", IDs: []Term{String("read")}}})
	bb.AddRule(Rule{Head: Predicate{Name: "r", IDs: []Term{Variable("x")}}, Body: []Predicate{{Name: "one", IDs: []Term{Variable("x")}}}})
	bb.AddCheck(Check{Queries: []Rule{{Head: Predicate{Name: "q"}, Body: []Predicate{{Name: "two", IDs: []Term{Integer(2)}}}}}})
	_ = bb.Build()
	if after := first.String(tok.symbols); after != before || len(*first.facts) != nf || len(first.rules) != nr || len(first.checks) != nc {
		fmt.Printf("REPRODUCED: a built block changes when its builder is used again: %d/%d/%d facts/rules/checks become %d/%d/%d\n", nf, nr, nc, len(*first.facts), len(first.rules), len(first.checks))
		t.Fail()
		return
	}
	fmt.Println("NOT-REPRODUCED: a built block keeps its facts, rules and checks when its builder is used again")
}

// TestGovcReplayNextKeyFromSource: C20 — the next key pair of a returned token is the
// one derived from the bytes the supplied source delivered.
func TestGovcReplayNextKeyFromSource(t *testing.T) {
	_, priv, _ := ed25519.GenerateKey(rand.Reader)
	seq := func(from byte) []byte {
		b := make([]byte, 32)
		for i := range b {
			b[i] = from + byte(i)
		}
		return b
	}
	b := NewBuilder(priv, WithRNG(bytes.NewReader(seq(1))))
	b.AddAuthorityFact(Fact{Predicate: Predicate{Name: "right", IDs: []Term{String("/a/file1"), String("read")}}})
	tok, err := b.Build()
	if err != nil {
		t.Fatalf("build: %v", err)
	}
	want := ed25519.NewKeyFromSeed(seq(1))
	if got := tok.container.Proof.GetNextSecret(); !bytes.Equal(got, want.Seed()) {
		fmt.Printf("REPRODUCED: Build with a source delivering 01..20: the token's next secret is %x, the seed delivered is %x\n", got, want.Seed())
		t.Fail()
		return
	}
	if got := tok.container.Authority.NextKey.Key; !bytes.Equal(got, want.Public().(ed25519.PublicKey)) {
		fmt.Printf("REPRODUCED: Build with a source delivering 01..20: the announced next key is %x, the key derived from the delivered seed is %x\n", got, want.Public())
		t.Fail()
		return
	}
	app, err := tok.Append(bytes.NewReader(seq(0x21)), govcBlock(tok, "foo"))
	if err != nil {
		t.Fatalf("append: %v", err)
	}
	want2 := ed25519.NewKeyFromSeed(seq(0x21))
	if got := app.container.Proof.GetNextSecret(); !bytes.Equal(got, want2.Seed()) {
		fmt.Printf("REPRODUCED: Append with a source delivering 21..40: the token's next secret is %x, the seed delivered is %x\n", got, want2.Seed())
		t.Fail()
		return
	}
	fmt.Println("NOT-REPRODUCED: next keys of Build and Append are derived from the bytes the source delivered")
}

// TestGovcReplayLimitsAcrossMethods: C11 — the run limits given to the constructor stay in
// force after every authorizer method (Add*, LoadPolicies of its own snapshot, Reset,
// Query): an authorizer limited to 4 facts must still refuse a 6-fact request.
func TestGovcReplayLimitsAcrossMethods(t *testing.T) {
	steps := []struct {
		name string
		do   func(a Authorizer) error
	}{
		{"LoadPolicies(own snapshot)", func(a Authorizer) error {
			s, err := a.SerializePolicies()
			if err != nil {
				return err
			}
			return a.LoadPolicies(s)
		}},
		{"Reset", func(a Authorizer) error { a.Reset(); return nil }},
		{"AddCheck", func(a Authorizer) error {
			a.AddCheck(Check{Queries: []Rule{{Head: Predicate{Name: "q"}, Body: []Predicate{{Name: "right", IDs: []Term{Variable("a"), Variable("b")}}}}}})
			return nil
		}},
		{"AddPolicy", func(a Authorizer) error { a.AddPolicy(DefaultAllowPolicy); return nil }},
		{"AddRule", func(a Authorizer) error {
			a.AddRule(Rule{Head: Predicate{Name: "r", IDs: []Term{Variable("a")}}, Body: []Predicate{{Name: "right", IDs: []Term{Variable("a"), Variable("b")}}}})
			return nil
		}},
	}
	for _, st := range steps {
		tok, pub := govcToken(t)
		a, err := tok.Authorizer(pub, WithWorldOptions(datalog.WithMaxFacts(4), datalog.WithMaxIterations(100), datalog.WithMaxDuration(10*time.Second)))
		if err != nil {
			t.Fatal(err)
		}
		if err := st.do(a); err != nil {
			t.Fatalf("%s: %v", st.name, err)
		}
		for i := 0; i < 6; i++ {
			a.AddFact(Fact{Predicate: Predicate{Name: "extra", IDs: []Term{Integer(int64(i))}}})
		}
		a.AddPolicy(DefaultAllowPolicy)
		if got := a.Authorize(); got == nil || !errors.Is(got, datalog.ErrWorldRunLimitMaxFacts) {
			fmt.Printf("REPRODUCED: authorizer created with WithMaxFacts(4); after %s a request with 6 more facts gives %v instead of the fact-limit error\n", st.name, got)
			t.Fail()
			return
		}
	}
	fmt.Println("NOT-REPRODUCED: the configured fact limit is enforced after every authorizer method tried")
}
