package main

import "strings"

// routeProps decides which of the properties a function serves own an obligation
// of the given kind, so that one root cause is reported under the property it
// concerns rather than under every property the function contributes to:
//   - frame obligations (writes outside the modifies clause, in-place appends
//     into shared capacity) belong to the immutability / isolation properties;
//   - safety obligations (panics) belong to the no-panic properties;
//   - everything else (ensures, invariants, call preconditions, vacuity) serves
//     all properties of the function, unless a clause names its own.
// C18 is among them because saving a snapshot must not write what it has already handed
// out (nor the authorizer it saves): two seeded changes are caught by exactly that.
var frameProps = map[string]bool{"C02": true, "C03": true, "C07": true, "C08": true, "C09": true, "C13": true, "C17": true, "C18": true, "C19": true}
var safeProps = map[string]bool{"C06": true, "C10": true, "C14": true, "C18": true, "C20": true}

func routeProps(kind string, props []string) []string {
	var want map[string]bool
	switch {
	case kind == "frame":
		want = frameProps
	case strings.HasPrefix(kind, "safe/"):
		want = safeProps
	default:
		return props
	}
	var out []string
	for _, p := range props {
		if want[p] {
			out = append(out, p)
		}
	}
	if len(out) == 0 {
		return props
	}
	return out
}
