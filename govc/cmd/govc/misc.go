package main

import (
	"bytes"
	"go/ast"
	"go/printer"
	"go/token"
	"os"
)

func osEnviron() []string { return os.Environ() }

func nodeString(fset *token.FileSet, n ast.Node) string {
	var b bytes.Buffer
	printer.Fprint(&b, fset, n)
	return b.String()
}

func isWordChar(c byte) bool {
	return c >= 'a' && c <= 'z' || c >= 'A' && c <= 'Z' || c >= '0' && c <= '9' || c == '_'
}
