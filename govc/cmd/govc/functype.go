package main

import (
	"go/types"
	"sort"

	"golang.org/x/tools/go/ssa"
)

// funcsOfType lists the module's functions and closures that are converted to
// the named function type tn ("biscuit.AuthorizerOption"): these are the values
// a call through that type can reach from inside the module.
func funcsOfType(P *Program, tn string) []*ssa.Function {
	seen := map[*ssa.Function]bool{}
	var out []*ssa.Function
	add := func(v ssa.Value) {
		switch x := v.(type) {
		case *ssa.MakeClosure:
			if fn, ok := x.Fn.(*ssa.Function); ok && !seen[fn] {
				seen[fn] = true
				out = append(out, fn)
			}
		case *ssa.Function:
			if !seen[x] {
				seen[x] = true
				out = append(out, x)
			}
		}
	}
	name := func(t types.Type) string {
		n, ok := t.(*types.Named)
		if !ok || n.Obj().Pkg() == nil {
			return ""
		}
		return shortPkg(n.Obj().Pkg().Path()) + "." + n.Obj().Name()
	}
	for _, fn := range P.ByName {
		for _, b := range fn.Blocks {
			for _, in := range b.Instrs {
				switch x := in.(type) {
				case *ssa.ChangeType:
					if name(x.Type()) == tn {
						add(x.X)
					}
				case *ssa.MakeClosure:
					if name(x.Type()) == tn {
						add(x)
					}
				}
			}
		}
	}
	sort.Slice(out, func(i, j int) bool { return canonName(out[i]) < canonName(out[j]) })
	return out
}
