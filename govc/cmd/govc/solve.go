package main

import (
	"bytes"
	"context"
	"fmt"
	"os"
	"os/exec"
	"path/filepath"
	"strings"
	"sync"
	"time"
)

type SolveResult struct {
	Status  string  // discharged | failed | vacuous | undecided-cover
	Answer  string  // unsat | sat | unknown | timeout | error
	Solver  string
	Seconds float64
	Model   string
	Output  string
	File    string
	Tried   []string
	ModelRelaxed bool
}

type solverSpec struct {
	name string
	args func(file string, timeout time.Duration, seed int) []string
}

var solvers = []solverSpec{
	{"z3-5.1.0", func(f string, t time.Duration, seed int) []string {
		return []string{"z3-new", "-smt2", fmt.Sprintf("-T:%d", int(t.Seconds()+0.999)), fmt.Sprintf("smt.random_seed=%d", seed), fmt.Sprintf("sat.random_seed=%d", seed), f}
	}},
	{"z3-4.8.12", func(f string, t time.Duration, seed int) []string {
		return []string{"z3", "-smt2", fmt.Sprintf("-T:%d", int(t.Seconds()+0.999)), fmt.Sprintf("smt.random_seed=%d", seed), f}
	}},
	{"cvc5-1.0.3", func(f string, t time.Duration, seed int) []string {
		return []string{"cvc5", "--lang=smt2", fmt.Sprintf("--tlimit=%d", t.Milliseconds()), fmt.Sprintf("--seed=%d", seed), f}
	}},
}

// prlimitPath: util-linux prlimit, used to give solver processes a CPU-time budget.
var prlimitPath = func() string {
	p, err := exec.LookPath("prlimit")
	if err != nil {
		return ""
	}
	return p
}()

func runSolver(ctx context.Context, s solverSpec, file string, timeout time.Duration, seed int) (answer, out string, secs float64) {
	// The budget is CPU time (prlimit), so that the answer does not depend on how
	// busy the machine is; wall-clock limits are six times larger and only a backstop.
	wall := 6 * timeout
	args := s.args(file, wall, seed)
	cctx, cancel := context.WithTimeout(ctx, wall+2*time.Second)
	defer cancel()
	if prlimitPath != "" {
		args = append([]string{prlimitPath, fmt.Sprintf("--cpu=%d", int(timeout.Seconds()+0.999))}, args...)
	}
	cmd := exec.CommandContext(cctx, args[0], args[1:]...)
	var buf bytes.Buffer
	cmd.Stdout = &buf
	cmd.Stderr = &buf
	start := time.Now()
	runErr := cmd.Run()
	killed := false
	if ee, ok := runErr.(*exec.ExitError); ok && !ee.Exited() {
		killed = true // ended by a signal: the CPU budget (or the wall backstop) ran out
	}
	secs = time.Since(start).Seconds()
	out = buf.String()
	first := ""
	for _, l := range strings.Split(out, "\n") {
		l = strings.TrimSpace(l)
		if l == "" || strings.HasPrefix(l, "WARNING") || strings.HasPrefix(l, "(warning") {
			continue // e.g. a pattern the solver refuses; it then picks its own
		}
		first = l
		break
	}
	switch first {
	case "unsat", "sat", "unknown":
		answer = first
	case "timeout":
		answer = "timeout"
	default:
		if killed || cctx.Err() != nil || strings.Contains(out, "timeout") || strings.Contains(out, "interrupted") {
			answer = "timeout"
		} else {
			answer = "error"
		}
	}
	return
}

// solveOne: stage 1 = z3 5.1 alone with a short budget; stage 2 = race of all
// three with the full budget. First definitive answer wins.
func solveOne(o *Obligation, dir string, timeout time.Duration, seed int) *SolveResult {
	file := filepath.Join(dir, sanitize(o.Name)+".smt2")
	if len(file) > 240 {
		file = file[:230] + fmt.Sprintf("_%x.smt2", hashString(o.Name))
	}
	text := o.Text
	if text == "" {
		text = o.smt(int(timeout.Milliseconds()))
	}
	o.Text = "" // free memory once written
	if err := os.WriteFile(file, []byte(text), 0o644); err != nil {
		return &SolveResult{Status: "failed", Answer: "error", Output: err.Error()}
	}
	res := &SolveResult{File: file}
	definitive := func(a string) bool { return a == "unsat" || a == "sat" }
	finish := func(ans, solver, out string, secs float64) *SolveResult {
		res.Answer, res.Solver, res.Output, res.Seconds = ans, solver, out, secs
		if o.Expect == "sat" {
			switch ans {
			case "sat":
				res.Status = "discharged"
			case "unsat":
				res.Status = "vacuous"
			default:
				res.Status = "undecided-cover"
			}
			return res
		}
		if ans == "unsat" {
			res.Status = "discharged"
		} else {
			res.Status = "failed"
			if ans == "sat" {
				res.Model = getModel(file, solver, timeout, seed)
			}
		}
		return res
	}
	short := 3 * time.Second
	if timeout < short {
		short = timeout
	}
	ans, out, secs := runSolver(context.Background(), solvers[0], file, short, seed)
	res.Tried = append(res.Tried, fmt.Sprintf("%s:%s:%.2fs", solvers[0].name, ans, secs))
	if definitive(ans) {
		return finish(ans, solvers[0].name, out, secs)
	}
	if ans == "error" {
		res.Output = out
	}
	if o.Expect == "sat" {
		// a cover (vacuity guard) exists to catch "unsat": contradictory assumptions.
		// With quantified assumptions the solvers rarely answer "sat"; a second solver
		// gets the same short budget to look for unsat, then the cover is recorded as
		// undecided (not vacuous within the budget) instead of racing to the full timeout.
		a2, out2, secs2 := runSolver(context.Background(), solvers[1], file, short, seed)
		res.Tried = append(res.Tried, fmt.Sprintf("%s:%s:%.2fs", solvers[1].name, a2, secs2))
		if definitive(a2) {
			return finish(a2, solvers[1].name, out2, secs2)
		}
		return finish(ans, solvers[0].name, out, secs)
	}
	// race
	type r struct {
		ans, out, solver string
		secs             float64
	}
	ctx, cancel := context.WithCancel(context.Background())
	defer cancel()
	ch := make(chan r, len(solvers))
	for _, s := range solvers {
		s := s
		go func() {
			a, ou, se := runSolver(ctx, s, file, timeout, seed)
			ch <- r{a, ou, s.name, se}
		}()
	}
	var last r
	var errOut string
	for i := 0; i < len(solvers); i++ {
		x := <-ch
		res.Tried = append(res.Tried, fmt.Sprintf("%s:%s:%.2fs", x.solver, x.ans, x.secs))
		if definitive(x.ans) {
			cancel()
			return finish(x.ans, x.solver, x.out, x.secs)
		}
		if x.ans == "error" {
			errOut += x.solver + ": " + x.out + "\n"
		}
		if last.ans == "" || x.ans == "unknown" {
			last = x
		}
	}
	rr := finish(last.ans, last.solver, last.out, last.secs)
	if errOut != "" {
		rr.Output += "\n" + errOut
	}
	if rr.Status == "failed" && o.Expect != "sat" {
		// model-finding fallback: drop quantified assumptions and ask again; a
		// model found this way is only a candidate (it is believed if it replays)
		relaxed := relaxQuery(text)
		rf := strings.TrimSuffix(file, ".smt2") + ".relaxed.smt2"
		os.WriteFile(rf, []byte(relaxed), 0o644)
		for _, s := range solvers[:2] {
			a, _, _ := runSolver(context.Background(), s, rf, short, seed)
			rr.Tried = append(rr.Tried, fmt.Sprintf("relaxed:%s:%s", s.name, a))
			if a == "sat" {
				rr.Model = getModel(rf, s.name, short, seed)
				rr.ModelRelaxed = true
				break
			}
		}
	}
	return rr
}

func hashString(s string) uint32 {
	var h uint32 = 2166136261
	for i := 0; i < len(s); i++ {
		h ^= uint32(s[i])
		h *= 16777619
	}
	return h
}

func getModel(file, solver string, timeout time.Duration, seed int) string {
	data, err := os.ReadFile(file)
	if err != nil {
		return ""
	}
	mf := strings.TrimSuffix(file, ".smt2") + ".model.smt2"
	os.WriteFile(mf, append(data, []byte("(get-model)\n")...), 0o644)
	defer os.Remove(mf)
	for _, s := range solvers {
		if s.name == solver {
			_, out, _ := runSolver(context.Background(), s, mf, timeout, seed)
			if len(out) > 200000 {
				out = out[:200000]
			}
			return out
		}
	}
	return ""
}

func solveAll(obls []*Obligation, dir string, timeout time.Duration, seed, jobs int) {
	os.MkdirAll(dir, 0o755)
	// query texts are generated sequentially (generation touches shared VC state),
	// each just before it is handed to a worker, so that only a few are in memory
	var wg sync.WaitGroup
	sem := make(chan struct{}, jobs)
	keepAll := os.Getenv("GOVC_KEEP_SMT") != ""
	for i, o := range obls {
		o := o
		i := i
		wg.Add(1)
		sem <- struct{}{}
		t0 := time.Now()
		o.Text = o.smt(int(timeout.Milliseconds()))
		genTextSeconds += time.Since(t0).Seconds()
		go func() {
			defer wg.Done()
			defer func() { <-sem }()
			o.Result = solveOne(o, dir, timeout, seed)
			// disk: a discharged query is regenerated on every run; the first ones are
			// kept as samples for the evidence file, slow ones for inspection
			if !keepAll && i >= 200 && o.Result != nil && o.Result.Status == "discharged" && o.Result.Seconds <= 2 {
				os.Remove(o.Result.File)
			}
		}()
	}
	wg.Wait()
	if os.Getenv("GOVC_PROF") != "" {
		fmt.Fprintf(os.Stderr, "profile: query text generation %.1fs for %d obligations\n", genTextSeconds, len(obls))
	}
}

var genTextSeconds float64

// relaxQuery removes quantified assertions (assumed facts only; the negated goal
// is the last assert and is kept even if quantified).
func relaxQuery(text string) string {
	lines := strings.Split(text, "\n")
	lastAssert := -1
	for i, l := range lines {
		if strings.HasPrefix(l, "(assert ") {
			lastAssert = i
		}
	}
	var out []string
	for i, l := range lines {
		if i != lastAssert && strings.HasPrefix(l, "(assert ") && (strings.Contains(l, "(forall ") || strings.Contains(l, "(exists ")) && !strings.Contains(l, "(= (ix o j)") {
			continue
		}
		out = append(out, l)
	}
	return strings.Join(out, "\n")
}
