package main

import (
	"go/types"
	"sort"
	"strings"

	"golang.org/x/tools/go/ssa"
)

// effectSet: heap components a function may write to or allocate in (static,
// syntactic over-approximation, closed under calls).
type effectSet struct {
	all   bool
	comps map[string]bool
	kinds map[string]effComp
}

type effComp struct {
	kind byte // 'c' cell, 'a' array, 'm' map
	T    types.Type
}

func newEffectSet() *effectSet {
	return &effectSet{comps: map[string]bool{}, kinds: map[string]effComp{}}
}

func (e *effectSet) addCell(T types.Type) {
	if _, ok := T.Underlying().(*types.Array); ok {
		e.addArr(T)
		return
	}
	k := "c:" + typeKey(T)
	e.kinds[k] = effComp{'c', T}
}

// addArr: T is a slice or array type; the component is its class (classes.go).
func (e *effectSet) addArr(T types.Type) { e.kinds["a:"+typeKey(T)] = effComp{'a', T} }
func (e *effectSet) addMap(M types.Type) { e.kinds["m:"+typeKey(M)] = effComp{'m', M} }

func (e *effectSet) union(o *effectSet) bool {
	ch := false
	if o.all && !e.all {
		e.all = true
		ch = true
	}
	for k, v := range o.kinds {
		if _, ok := e.kinds[k]; !ok {
			e.kinds[k] = v
			ch = true
		}
	}
	for k := range o.comps {
		if !e.comps[k] {
			e.comps[k] = true
			ch = true
		}
	}
	return ch
}

// list registers the components in the VC's sort table and returns their names.
func (e *effectSet) list(vc *VC) []string {
	seen := map[string]bool{}
	for k := range e.comps {
		seen[k] = true
	}
	keys := make([]string, 0, len(e.kinds))
	for k := range e.kinds {
		keys = append(keys, k)
	}
	sort.Strings(keys)
	for _, k := range keys {
		c := e.kinds[k]
		switch c.kind {
		case 'c':
			seen[vc.S.cellComp(c.T).Name] = true
		case 'a':
			seen[vc.S.arrComp(c.T).Name] = true
		case 'm':
			v, d := vc.S.mapComps(c.T.Underlying().(*types.Map))
			seen[v.Name], seen[d.Name] = true, true
		}
	}
	var out []string
	for k := range seen {
		out = append(out, k)
	}
	sort.Strings(out)
	return out
}

func (P *Program) effects(fn *ssa.Function) *effectSet {
	if P.eff == nil {
		P.computeEffects()
	}
	if e, ok := P.eff[fn]; ok {
		return e
	}
	e := newEffectSet()
	e.all = true
	return e
}

func rootOfAddr(v ssa.Value) ssa.Value {
	for {
		switch x := v.(type) {
		case *ssa.FieldAddr:
			v = x.X
		case *ssa.IndexAddr:
			if _, isSlice := x.X.Type().Underlying().(*types.Slice); isSlice {
				return x
			}
			v = x.X
		default:
			return v
		}
	}
}

func (P *Program) localEffects(fn *ssa.Function) (*effectSet, []*ssa.Function) {
	return P.localEffectsBlocks(fn.Blocks)
}

func (P *Program) localEffectsBlocks(blocks []*ssa.BasicBlock) (*effectSet, []*ssa.Function) {
	e := newEffectSet()
	var callees []*ssa.Function
	for _, b := range blocks {
		for _, in := range b.Instrs {
			switch x := in.(type) {
			case *ssa.Store:
				r := rootOfAddr(x.Addr)
				if ia, ok := r.(*ssa.IndexAddr); ok {
					e.addArr(ia.X.Type())
				} else if _, isArr := arrayOfPtr(r.Type()); isArr {
					e.addArr(P.arrayTypeOf(r))
				} else if pt, ok := r.Type().Underlying().(*types.Pointer); ok {
					e.addCell(pt.Elem())
				}
			case *ssa.Alloc:
				if _, isArr := arrayOfPtr(x.Type()); isArr {
					e.addArr(P.allocArrayType(x))
				} else {
					e.addCell(x.Type().Underlying().(*types.Pointer).Elem())
				}
			case *ssa.MakeSlice:
				e.addArr(x.Type())
			case *ssa.MakeMap:
				e.addMap(x.Type())
			case *ssa.MapUpdate:
				e.addMap(x.Map.Type())
			case *ssa.Convert:
				if isByteSlice(x.Type()) {
					e.addArr(x.Type())
				}
			case *ssa.Go:
				// the spawned goroutine's writes are accounted for where its channel
				// is received from (producer/consumer rule), not at the go statement
			case ssa.CallInstruction:
				c := x.Common()
				if c.IsInvoke() {
					if n, ok := P.closedInterface(c.Value.Type()); ok {
						for _, T := range P.implementors(n) {
							if m := P.Prog.LookupMethod(T, c.Method.Pkg(), c.Method.Name()); m != nil {
								callees = append(callees, m)
							}
						}
					} else {
						P.externEffects(e, "iface:"+types.TypeString(c.Value.Type(), func(p *types.Package) string { return p.Path() })+"."+c.Method.Name(), c.Signature(), nil)
					}
					continue
				}
				switch cal := c.Value.(type) {
				case *ssa.Builtin:
					switch cal.Name() {
					case "append", "copy":
						if _, ok := c.Args[0].Type().Underlying().(*types.Slice); ok {
							e.addArr(c.Args[0].Type())
						}
					case "delete":
						e.addMap(c.Args[0].Type())
					}
				case *ssa.Function:
					callees = append(callees, cal)
				case *ssa.MakeClosure:
					callees = append(callees, cal.Fn.(*ssa.Function))
				default:
					tn := ""
					if n, ok := c.Value.Type().(*types.Named); ok && n.Obj().Pkg() != nil {
						tn = shortPkg(n.Obj().Pkg().Path()) + "." + n.Obj().Name()
					}
					if con, ok := P.SS.FuncTypes[tn]; ok {
						P.contractEffects(e, con, c.Signature(), nil)
					} else {
						e.all = true
					}
				}
			}
		}
	}
	return e, callees
}

// externEffects: effects of a call that leaves the module (or goes through an
// open interface): from its assumed contract if there is one, otherwise the
// shallow default (what pointer and slice arguments directly reference).
func (P *Program) externEffects(e *effectSet, name string, sig *types.Signature, recv types.Type) {
	if con, ok := P.SS.Contracts[name]; ok {
		P.contractEffects(e, con, sig, recv)
		return
	}
	if len(name) > 6 && name[:6] == "iface:" {
		e.all = true
		return
	}
	P.shallowEffects(e, sig)
}

func (P *Program) shallowEffects(e *effectSet, sig *types.Signature) {
	add := func(t types.Type) {
		switch u := t.Underlying().(type) {
		case *types.Pointer:
			e.addCell(u.Elem())
		case *types.Slice:
			e.addArr(t)
		}
	}
	for i := 0; i < sig.Params().Len(); i++ {
		add(sig.Params().At(i).Type())
	}
	if r := sig.Recv(); r != nil {
		add(r.Type())
	}
}

// touchesEffects interprets a contract's "touches" clause: all | none |
// cell:<type> | arr:<slice type> (types as written in contracts).
func (P *Program) touchesEffects(e *effectSet, con *Contract) {
	for _, t := range con.Touches {
		switch {
		case t == "all":
			e.all = true
		case t == "none":
		case strings.HasPrefix(t, "cell:"), strings.HasPrefix(t, "arr:"):
			kind, name, _ := strings.Cut(t, ":")
			var T types.Type
			func() {
				defer func() { recover() }()
				pkg := P.SPkgs[con.Pkg]
				if pkg == nil {
					pkg = P.SPkgs["biscuit"]
				}
				env := &specEnv{vc: &VC{P: P}, pkg: pkg.Pkg}
				T = env.resolveType(name)
			}()
			if T == nil {
				e.all = true // unknown type: be conservative
				continue
			}
			if kind == "cell" {
				e.addCell(T)
			} else {
				e.addArr(T)
			}
		default:
			e.comps[t] = true
		}
	}
}

func (P *Program) contractEffects(e *effectSet, con *Contract, sig *types.Signature, recv types.Type) {
	P.touchesEffects(e, con)
	if !con.ModNothing && !con.Pure {
		P.shallowEffects(e, sig)
	}
	for i := 0; i < sig.Results().Len(); i++ {
		switch u := sig.Results().At(i).Type().Underlying().(type) {
		case *types.Pointer:
			e.addCell(u.Elem())
		case *types.Slice:
			e.addArr(sig.Results().At(i).Type())
		}
	}
}

func (P *Program) computeEffects() {
	P.eff = map[*ssa.Function]*effectSet{}
	callees := map[*ssa.Function][]*ssa.Function{}
	var fns []*ssa.Function
	seen := map[*ssa.Function]bool{}
	var visit func(fn *ssa.Function)
	visit = func(fn *ssa.Function) {
		if seen[fn] {
			return
		}
		seen[fn] = true
		if (fn.Pkg != nil && !P.Module[fn.Pkg.Pkg]) || len(fn.Blocks) == 0 {
			// foreign or bodyless
			e := newEffectSet()
			P.externEffects(e, fn.String(), fn.Signature, nil)
			P.eff[fn] = e
			return
		}
		e, cs := P.localEffects(fn)
		P.eff[fn] = e
		callees[fn] = cs
		fns = append(fns, fn)
		for _, c := range cs {
			visit(c)
		}
	}
	for _, fn := range P.ByName {
		visit(fn)
	}
	// wrappers reached through LookupMethod are visited on demand above
	for changed := true; changed; {
		changed = false
		for _, fn := range fns {
			for _, c := range callees[fn] {
				if P.eff[fn].union(P.eff[c]) {
					changed = true
				}
			}
		}
	}
}
