package main

import (
	"fmt"
	"go/types"
	"strings"
)

// exprMentions reports the ghost-function names an expression calls.
func exprMentions(e *Expr, out map[string]bool) {
	if e == nil {
		return
	}
	if e.Op == "call" && e.Args[0].Op == "ident" {
		out[e.Args[0].Name] = true
	}
	for _, a := range e.Args {
		exprMentions(a, out)
	}
	for _, a := range e.Trig {
		exprMentions(a, out)
	}
}

func (vc *VC) pkgByShort(short string) *types.Package {
	if sp, ok := vc.P.SPkgs[short]; ok {
		return sp.Pkg
	}
	return vc.fn.Pkg.Pkg
}

// ghostPrelude declares the uninterpreted ghost functions in use and asserts
// every axiom that mentions one of them (closing under mention).
func (vc *VC) ghostPrelude() string {
	type ax struct {
		a    *Axiom
		term string
	}
	var axs []ax
	done := map[*Axiom]bool{}
	for changed := true; changed; {
		changed = false
		for _, a := range vc.SS.Axioms {
			if done[a] {
				continue
			}
			m := map[string]bool{}
			exprMentions(a.Expr, m)
			hit := false
			for n := range m {
				if vc.ghostUsed[n] {
					hit = true
				}
			}
			if !hit {
				continue
			}
			done[a] = true
			changed = true
			env := &specEnv{vc: vc, pkg: vc.pkgByShort(a.Pkg), names: map[string]*specBinding{}, allocPre: "alloc0"}
			t, err := env.trBool(a.Expr)
			if err != nil {
				vc.note(fmt.Sprintf("axiom %s could not be translated: %v", a.Name, err))
				continue
			}
			axs = append(axs, ax{a, t})
			vc.usedAssumptions["spec axiom "+a.Name+": "+a.Src] = true
		}
	}
	var b strings.Builder
	for _, n := range vc.SS.GhostOrder {
		g := vc.SS.Ghosts[n]
		if !vc.ghostUsed[n] || g.Body != nil {
			continue
		}
		env := &specEnv{vc: vc, pkg: vc.pkgByShort(g.Pkg), names: map[string]*specBinding{}}
		var ps []string
		ok := true
		func() {
			defer func() {
				if r := recover(); r != nil {
					ok = false
					vc.note(fmt.Sprintf("ghost %s: %v", g.Name, r))
				}
			}()
			for _, s := range g.PSorts {
				ps = append(ps, env.quantSort(s).Sort)
			}
			rs := env.quantSort(g.RSort).Sort
			fmt.Fprintf(&b, "(declare-fun %s (%s) %s)\n", g.smtName(), strings.Join(ps, " "), rs)
		}()
		_ = ok
	}
	for _, a := range axs {
		fmt.Fprintf(&b, "(assert %s) ; axiom %s\n", a.term, a.a.Name)
	}
	// raw SMT axioms "smt <ghost>: <s-expression>" are included when <ghost> is in use
	for _, r := range vc.SS.RawSMT {
		i := strings.Index(r, ":")
		if i < 0 {
			continue
		}
		g := strings.TrimSpace(r[:i])
		if !vc.ghostUsed[g] {
			continue
		}
		b.WriteString(strings.TrimSpace(r[i+1:]) + " ; raw axiom for " + g + "\n")
		vc.usedAssumptions["spec axiom (raw SMT) for "+g+": "+strings.TrimSpace(r[i+1:])] = true
	}
	return b.String()
}

// expandPure expands a pure (macro) function at a call site.
func (env *specEnv) expandPure(g *GhostFunc, args []specVal) specVal {
	if env.letDepth > 12 {
		sfail("pure function %s: expansion too deep (recursive?)", g.Name)
	}
	c := env.child()
	c.letDepth = env.letDepth + 1
	c.pkg = env.vc.pkgByShort(g.Pkg)
	m := map[string]specVal{}
	for i, p := range g.Params {
		m[p] = args[i]
	}
	// parameters shadow everything; other names of the caller stay invisible
	c.names = map[string]*specBinding{}
	c.lets = nil
	c.bound = append(append([]map[string]specVal{}, env.bound...), m)
	return c.tr(g.Body)
}
