package main

import (
	"fmt"
	"go/types"
	"os"
	"regexp"
	"strings"
)

// exprMentions reports the ghost-function names an expression calls.
func exprMentions(e *Expr, out map[string]bool) {
	if e == nil {
		return
	}
	if e.Op == "call" && e.Args[0].Op == "ident" {
		out[e.Args[0].Name] = true
	}
	for _, a := range e.Args {
		exprMentions(a, out)
	}
	for _, a := range e.Trig {
		exprMentions(a, out)
	}
}

func (vc *VC) pkgByShort(short string) *types.Package {
	if sp, ok := vc.P.SPkgs[short]; ok {
		return sp.Pkg
	}
	return vc.fn.Pkg.Pkg
}

// ghostPrelude declares the uninterpreted ghost functions in use and asserts
// every axiom that mentions one of them (closing under mention).
func (vc *VC) ghostPrelude() string {
	type ax struct {
		a    *Axiom
		term string
	}
	var axs []ax
	done := map[*Axiom]bool{}
	for changed := true; changed; {
		changed = false
		for _, a := range vc.SS.Axioms {
			if done[a] {
				continue
			}
			m := map[string]bool{}
			exprMentions(a.Expr, m)
			hit := false
			for n := range m {
				if vc.ghostUsed[n] {
					hit = true
				}
			}
			if !hit {
				continue
			}
			done[a] = true
			changed = true
			env := &specEnv{vc: vc, pkg: vc.pkgByShort(a.Pkg), names: map[string]*specBinding{}, allocPre: "alloc0"}
			t, err := env.trBool(a.Expr)
			if err != nil {
				vc.note(fmt.Sprintf("axiom %s could not be translated: %v", a.Name, err))
				continue
			}
			axs = append(axs, ax{a, t})
			vc.usedAssumptions["spec axiom "+a.Name+": "+a.Src] = true
		}
	}
	var b strings.Builder
	for _, n := range vc.SS.GhostOrder {
		g := vc.SS.Ghosts[n]
		if !vc.ghostUsed[n] || g.Body != nil {
			continue
		}
		env := &specEnv{vc: vc, pkg: vc.pkgByShort(g.Pkg), names: map[string]*specBinding{}}
		var ps []string
		ok := true
		func() {
			defer func() {
				if r := recover(); r != nil {
					ok = false
					vc.note(fmt.Sprintf("ghost %s: %v", g.Name, r))
				}
			}()
			for _, s := range g.PSorts {
				ps = append(ps, env.quantSort(s).Sort)
			}
			rs := env.quantSort(g.RSort).Sort
			fmt.Fprintf(&b, "(declare-fun %s (%s) %s)\n", g.smtName(), strings.Join(ps, " "), rs)
		}()
		_ = ok
	}
	for _, a := range axs {
		fmt.Fprintf(&b, "(assert %s) ; axiom %s\n", a.term, a.a.Name)
	}
	// raw SMT axioms "smt <ghost>: <s-expression>" are included when <ghost> is in use
	for _, r := range vc.SS.RawSMT {
		i := strings.Index(r, ":")
		if i < 0 {
			continue
		}
		g := strings.TrimSpace(r[:i])
		if !vc.ghostUsed[g] {
			continue
		}
		b.WriteString(strings.TrimSpace(r[i+1:]) + " ; raw axiom for " + g + "\n")
		vc.usedAssumptions["spec axiom (raw SMT) for "+g+": "+strings.TrimSpace(r[i+1:])] = true
	}
	return b.String()
}

// expandPure expands a pure (macro) function at a call site.
func (env *specEnv) expandPure(g *GhostFunc, args []specVal) specVal {
	if env.letDepth > 12 {
		sfail("pure function %s: expansion too deep (recursive?)", g.Name)
	}
	c := env.child()
	c.letDepth = env.letDepth + 1
	c.pkg = env.vc.pkgByShort(g.Pkg)
	m := map[string]specVal{}
	// long argument terms are bound once with an SMT let instead of being copied to
	// every occurrence of the parameter (nested expansions under quantifiers grew
	// the text multiplicatively)
	var lets []string
	for i, p := range g.Params {
		a := args[i]
		if len(a.T) > 80 && os.Getenv("GOVC_NO_LET") == "" {
			env.vc.ctr++
			nm := fmt.Sprintf("lp!%d", env.vc.ctr)
			lets = append(lets, "("+nm+" "+a.T+")")
			a.T = nm
		}
		m[p] = a
	}
	// parameters shadow everything; other names of the caller stay invisible
	c.names = map[string]*specBinding{}
	c.lets = nil
	c.bound = append(append([]map[string]specVal{}, env.bound...), m)
	res := c.tr(g.Body)
	if len(lets) > 0 {
		if !isAtom(res.T) {
			res.T = "(let (" + strings.Join(lets, " ") + ") " + res.T + ")"
		} else {
			for _, l := range lets { // the body is just one of its parameters
				if strings.HasPrefix(l, "("+res.T+" ") {
					res.T = l[len(res.T)+2 : len(l)-1]
				}
			}
		}
	}
	// A large closed expansion (no free quantifier variable) is named once per VC and
	// referred to by name afterwards: invariants such as authWF(v) are assumed and
	// proved at dozens of program points, and their text dominated the query size.
	if len(res.T) > 400 && res.Sort != "" && os.Getenv("GOVC_NO_MEMO") == "" && closedTerm(res.T) {
		vc := env.vc
		if vc.macroMemo == nil {
			vc.macroMemo = map[string]string{}
		}
		if n, ok := vc.macroMemo[res.T]; ok {
			res.T = n
		} else {
			n := vc.define("m_"+g.Name, res.Sort, res.T)
			vc.macroMemo[res.T] = n
			res.T = n
		}
	}
	return res
}

// quantifier variables (q_<name>!n) and let-bound macro parameters (lp!n)
var qvarRe = regexp.MustCompile(`\b(q_[A-Za-z0-9_]+|lp)![0-9]+`)

// closedTerm: every quantifier variable mentioned in the term is bound inside it.
func closedTerm(t string) bool {
	seen := map[string]bool{}
	for _, v := range qvarRe.FindAllString(t, -1) {
		if seen[v] {
			continue
		}
		seen[v] = true
		if !strings.Contains(t, "(("+v+" ") && !strings.Contains(t, " ("+v+" ") {
			return false
		}
	}
	return true
}
