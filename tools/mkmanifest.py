#!/usr/bin/env python3
"""Regenerates /verif/MANIFEST.json from the table below (kept in one place so the
file stays valid). Run: python3 tools/mkmanifest.py"""
import json, subprocess

CLAIMED = {
 "C06": dict(
   text="Proof: every Eval of the operator table, the evaluation stack and the symbol-table functions they use are under contract; each row of the table is an ensures clause discharged for all operand values (64-bit wrap modelled exactly), together with every panic site (nil, index, type assertion, division) in those functions.",
   note="Assumed: contracts of math/big, strings, regexp, fmt (contracts/extern.spec); closed world for datalog.Term; regex semantics uninterpreted. Not decided: Expression.Evaluate's full postfix semantics (see DESIGN.md).",
   technique="contract-based deductive verification (govc: WP over go/ssa, z3/cvc5)", ref="4/C06"),
}

NOT_YET = "check not built yet in this commit (contracts for the functions it depends on are still being written); see DESIGN.md section 4 for the plan"
NA = {
 "C15": "relates two text-level functions (fmt-based printer, participle-driven parser); no contract on a function in /repo can express it (DESIGN.md section 4, C15)",
}
ALL = ["C%02d" % i for i in range(1, 21)]

def main():
    hooks = subprocess.run(["git", "-C", "/repo", "log", "--format=%h %s"], capture_output=True, text=True).stdout.splitlines()
    hook_commits = [l.split()[0] for l in hooks if l.split(" ", 1)[1].startswith("verif:")]
    checks = []
    for pid in ALL:
        if pid not in CLAIMED:
            continue
        c = CLAIMED[pid]
        checks.append({
            "property_id": pid,
            "quick_cmd": "/verif/bin/check %s quick" % pid,
            "thorough_cmd": "/verif/bin/check %s thorough" % pid,
            "evidence_file": "/verif/evidence/%s.json" % pid,
            "replay_cmd_template": "/verif/bin/check --replay {path}",
            "engine": "govc",
            "level_claimed": {"category": "proof", "text": c["text"], "design_ref": c["ref"]},
            "level_note": c["note"],
            "technique": c["technique"],
        })
    na = []
    for pid in ALL:
        if pid in CLAIMED:
            continue
        na.append({"property_id": pid, "reason": NA.get(pid, NOT_YET)})
    m = {
        "version": 1,
        "setup_cmd": "cd /verif/govc && GOFLAGS=-mod=mod GOPROXY=off GOSUMDB=off GOTOOLCHAIN=local go build -o /verif/bin/govc ./cmd/govc",
        "hooks": {
            "guard": "verif",
            "enable": "go build -tags verif (the hook files are comment-only contract files zz_contracts_verif.go, read by /verif/bin/govc)",
            "baseline_off_cmd": "cd /repo && GOFLAGS=-mod=mod GOPROXY=off GOSUMDB=off go test -json -vet=off -count=1 -timeout 25m ./...",
            "source_commits": hook_commits,
            "add_only": True,
        },
        "engines": [{"name": "govc", "path": "/verif/govc", "serves_properties": sorted(CLAIMED), "kind_free_text": "self-written modular VC generator over go/ssa (x/tools v0.29.0); contracts as //@ comments in /repo/**/zz_contracts_verif.go and assumed contracts in /verif/contracts; obligations discharged by z3 5.1.0, z3 4.8.12, cvc5 1.0.3"}],
        "checks": checks,
        "not_applicable": na,
        "notes": "Known findings: /verif/known_findings.txt. Design: /verif/DESIGN.md.",
    }
    json.dump(m, open("/verif/MANIFEST.json", "w"), indent=1)
    print("claimed:", sorted(CLAIMED), "hooks:", hook_commits)

main()
