package main

import (
	"bufio"
	"context"
	"encoding/json"
	"fmt"
	"os"
	"os/exec"
	"path/filepath"
	"strings"
	"time"
)

// Replay templates: /verif/replay/index.txt maps an obligation-name prefix to an
// in-package Go test (under /verif/replay/) that searches, on the REAL code, the
// input family relevant to that obligation, seeded with the model's parameter
// values (env GOVC_MODEL). The test prints a line starting with "REPRODUCED:"
// when the real code misbehaves. The test is injected with `go test -overlay`, so
// nothing is written into /repo.
type replayEntry struct {
	Prefix, PkgDir, File, Test string
}

func readReplayIndex(verifDir string) []replayEntry {
	f, err := os.Open(filepath.Join(verifDir, "replay", "index.txt"))
	if err != nil {
		return nil
	}
	defer f.Close()
	var out []replayEntry
	sc := bufio.NewScanner(f)
	for sc.Scan() {
		line := strings.TrimSpace(sc.Text())
		if line == "" || strings.HasPrefix(line, "#") {
			continue
		}
		fs := strings.Fields(line)
		if len(fs) != 4 {
			continue
		}
		out = append(out, replayEntry{fs[0], fs[1], fs[2], fs[3]})
	}
	return out
}

var repoDir = "/repo"

func tryReplay(verifDir, prop string, o *Obligation, model string) (string, bool) {
	var best *replayEntry
	for _, e := range readReplayIndex(verifDir) {
		e := e
		p := strings.TrimSuffix(e.Prefix, "*")
		if strings.HasPrefix(o.Name, p) && (best == nil || len(p) > len(strings.TrimSuffix(best.Prefix, "*"))) {
			best = &e
		}
	}
	if best == nil {
		return "", false
	}
	out, err := runReplayTest(verifDir, *best, modelInputs(o, model), o.Name)
	if err != nil {
		return out + "\n(replay could not be run: " + err.Error() + ")", false
	}
	ok := false
	for _, l := range strings.Split(out, "\n") {
		if strings.HasPrefix(strings.TrimSpace(l), "REPRODUCED:") {
			ok = true
		}
	}
	return out, ok
}

func runReplayTest(verifDir string, e replayEntry, modelText, obligation string) (string, error) {
	scratchRoot := os.Getenv("VERIF_SCRATCH")
	if scratchRoot == "" {
		scratchRoot = "/var/tmp"
	}
	tmp, err := os.MkdirTemp(scratchRoot, "govc-replay-")
	if err != nil {
		return "", err
	}
	defer os.RemoveAll(tmp)
	src := filepath.Join(verifDir, "replay", e.File)
	if _, err := os.Stat(src); err != nil {
		return "", err
	}
	target := filepath.Join(repoDir, e.PkgDir, "zz_govc_replay_test.go")
	ov := map[string]map[string]string{"Replace": {target: src}}
	data, _ := json.Marshal(ov)
	ovPath := filepath.Join(tmp, "overlay.json")
	if err := os.WriteFile(ovPath, data, 0o644); err != nil {
		return "", err
	}
	ctx, cancel := context.WithTimeout(context.Background(), 120*time.Second)
	defer cancel()
	pkg := "./" + e.PkgDir
	if e.PkgDir == "." {
		pkg = "."
	}
	cmd := exec.CommandContext(ctx, "go", "test", "-overlay", ovPath, "-vet=off", "-count=1", "-timeout", "60s", "-run", "^"+e.Test+"$", "-v", pkg)
	cmd.Dir = repoDir
	cmd.Env = append(os.Environ(), "GOFLAGS=-mod=mod", "GOPROXY=off", "GOSUMDB=off", "GOTOOLCHAIN=local",
		"GOVC_MODEL="+modelText, "GOVC_OBLIGATION="+obligation, "GOCACHE="+goCache())
	b, err := cmd.CombinedOutput()
	out := string(b)
	if len(out) > 6000 {
		out = out[:6000] + "\n...[truncated]"
	}
	// a failing test (exit 1) is the expected way to show misbehaviour; only
	// infrastructure errors are errors here
	if err != nil && !strings.Contains(out, "--- ") && !strings.Contains(out, "panic:") && !strings.Contains(out, "REPRODUCED") {
		return out, fmt.Errorf("%v", err)
	}
	return out, nil
}

func goCache() string {
	if c := os.Getenv("GOCACHE"); c != "" {
		return c
	}
	home, _ := os.UserHomeDir()
	return filepath.Join(home, ".cache", "go-build")
}

// ---- thorough tier: template sweep ----------------------------------------------
//
// The replay templates are small property-level searches on the REAL code (forks at
// several depths, block scoping, an expression corpus, goroutine dumps ...). In the
// thorough tier every template that concerns the property is also run when no
// obligation failed: a reproduction there is a violation the contracts did not see.
// This is a cross-check of the proof, never a substitute for it: it adds nothing to
// the obligations counted as discharged.

var templateProps = map[string][]string{
	"TestGovcReplayAuthorizerOptions": {"C11"},
	"TestGovcReplayBlockScoping":      {"C03", "C04"},
	"TestGovcReplayPolicyOrder":       {"C04"},
	"TestGovcReplayLimitIdentity":     {"C11"},
	"TestGovcReplayEvaluateUnbound":   {"C06", "C10"},
	"TestGovcReplayEntropy":           {"C20"},
	"TestGovcReplayExprCorpus":        {"C14"},
	"TestGovcReplayExprTermNil":       {"C14"},
	"TestGovcReplayFork":              {"C07", "C08", "C17", "C19"},
	"TestGovcReplayJoin":              {"C05"},
	"TestGovcReplayKeyID":             {"C16"},
	"TestGovcReplayResetLeak":         {"C13"},
	"TestGovcReplaySetOps":            {"C03", "C06", "C10"},
	"TestGovcReplayVersionGate":       {"C07"},
	"TestGovcReplayKeySelection":      {"C16"},
	"TestGovcReplaySealSymbols":       {"C09"},
	"TestGovcReplayBuiltBlockIndependent": {"C08"},
	"TestGovcReplayNextKeyFromSource": {"C20"},
	"TestGovcReplayCloneLimits":       {"C11"},
	"TestGovcReplayDateLiterals":      {"C14"},
	"TestGovcReplaySharedCapacity":    {"C08", "C19"},
	"TestGovcReplayShortSecret":       {"C10"},
	"TestGovcReplaySiblings":          {"C08", "C19"},
	"TestGovcReplayStrandApply":       {"C11"},
	"TestGovcReplayStrandRun":         {"C11"},
}

type sweepResult struct {
	Template   string `json:"template"`
	Outcome    string `json:"outcome"` // not-reproduced | REPRODUCED | error
	FirstLine  string `json:"first_line,omitempty"`
	ReplayFile string `json:"replay_file,omitempty"`
}

func sweepTemplates(verifDir, prop string) []sweepResult {
	var out []sweepResult
	seen := map[string]bool{}
	for _, e := range readReplayIndex(verifDir) {
		if seen[e.Test] {
			continue
		}
		concerns := false
		for _, p := range templateProps[e.Test] {
			if p == prop {
				concerns = true
			}
		}
		if !concerns {
			continue
		}
		seen[e.Test] = true
		txt, err := runReplayTest(verifDir, e, "", "sweep/"+prop)
		r := sweepResult{Template: e.Test, Outcome: "not-reproduced"}
		if err != nil {
			r.Outcome = "error"
			r.FirstLine = err.Error()
		}
		for _, l := range strings.Split(txt, "\n") {
			l = strings.TrimSpace(l)
			if strings.HasPrefix(l, "REPRODUCED:") {
				r.Outcome, r.FirstLine = "REPRODUCED", l
				dir := filepath.Join(verifDir, "replays", prop)
				os.MkdirAll(dir, 0o755)
				r.ReplayFile = filepath.Join(dir, "sweep_"+e.Test+".txt")
				os.WriteFile(r.ReplayFile, []byte("thorough-tier template sweep: "+e.Test+" on the real code\n\n"+txt+"\n\nresult: failing input reproduced on the real code\n"), 0o644)
				break
			}
			if strings.HasPrefix(l, "NOT-REPRODUCED:") && r.FirstLine == "" {
				r.FirstLine = l
			}
		}
		out = append(out, r)
	}
	return out
}
