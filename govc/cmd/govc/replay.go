package main

import (
	"bufio"
	"context"
	"encoding/json"
	"fmt"
	"os"
	"os/exec"
	"path/filepath"
	"strings"
	"time"
)

// Replay templates: /verif/replay/index.txt maps an obligation-name prefix to an
// in-package Go test (under /verif/replay/) that searches, on the REAL code, the
// input family relevant to that obligation, seeded with the model's parameter
// values (env GOVC_MODEL). The test prints a line starting with "REPRODUCED:"
// when the real code misbehaves. The test is injected with `go test -overlay`, so
// nothing is written into /repo.
type replayEntry struct {
	Prefix, PkgDir, File, Test string
}

func readReplayIndex(verifDir string) []replayEntry {
	f, err := os.Open(filepath.Join(verifDir, "replay", "index.txt"))
	if err != nil {
		return nil
	}
	defer f.Close()
	var out []replayEntry
	sc := bufio.NewScanner(f)
	for sc.Scan() {
		line := strings.TrimSpace(sc.Text())
		if line == "" || strings.HasPrefix(line, "#") {
			continue
		}
		fs := strings.Fields(line)
		if len(fs) != 4 {
			continue
		}
		out = append(out, replayEntry{fs[0], fs[1], fs[2], fs[3]})
	}
	return out
}

var repoDir = "/repo"

func tryReplay(verifDir, prop string, o *Obligation, model string) (string, bool) {
	var best *replayEntry
	for _, e := range readReplayIndex(verifDir) {
		e := e
		p := strings.TrimSuffix(e.Prefix, "*")
		if strings.HasPrefix(o.Name, p) && (best == nil || len(p) > len(strings.TrimSuffix(best.Prefix, "*"))) {
			best = &e
		}
	}
	if best == nil {
		return "", false
	}
	out, err := runReplayTest(verifDir, *best, modelInputs(o, model), o.Name)
	if err != nil {
		return out + "\n(replay could not be run: " + err.Error() + ")", false
	}
	ok := false
	for _, l := range strings.Split(out, "\n") {
		if strings.HasPrefix(strings.TrimSpace(l), "REPRODUCED:") {
			ok = true
		}
	}
	return out, ok
}

func runReplayTest(verifDir string, e replayEntry, modelText, obligation string) (string, error) {
	scratchRoot := os.Getenv("VERIF_SCRATCH")
	if scratchRoot == "" {
		scratchRoot = "/var/tmp"
	}
	tmp, err := os.MkdirTemp(scratchRoot, "govc-replay-")
	if err != nil {
		return "", err
	}
	defer os.RemoveAll(tmp)
	src := filepath.Join(verifDir, "replay", e.File)
	if _, err := os.Stat(src); err != nil {
		return "", err
	}
	target := filepath.Join(repoDir, e.PkgDir, "zz_govc_replay_test.go")
	ov := map[string]map[string]string{"Replace": {target: src}}
	data, _ := json.Marshal(ov)
	ovPath := filepath.Join(tmp, "overlay.json")
	if err := os.WriteFile(ovPath, data, 0o644); err != nil {
		return "", err
	}
	ctx, cancel := context.WithTimeout(context.Background(), 120*time.Second)
	defer cancel()
	pkg := "./" + e.PkgDir
	if e.PkgDir == "." {
		pkg = "."
	}
	cmd := exec.CommandContext(ctx, "go", "test", "-overlay", ovPath, "-vet=off", "-count=1", "-timeout", "60s", "-run", "^"+e.Test+"$", "-v", pkg)
	cmd.Dir = repoDir
	cmd.Env = append(os.Environ(), "GOFLAGS=-mod=mod", "GOPROXY=off", "GOSUMDB=off", "GOTOOLCHAIN=local",
		"GOVC_MODEL="+modelText, "GOVC_OBLIGATION="+obligation, "GOCACHE="+goCache())
	b, err := cmd.CombinedOutput()
	out := string(b)
	if len(out) > 6000 {
		out = out[:6000] + "\n...[truncated]"
	}
	// a failing test (exit 1) is the expected way to show misbehaviour; only
	// infrastructure errors are errors here
	if err != nil && !strings.Contains(out, "--- ") && !strings.Contains(out, "panic:") && !strings.Contains(out, "REPRODUCED") {
		return out, fmt.Errorf("%v", err)
	}
	return out, nil
}

func goCache() string {
	if c := os.Getenv("GOCACHE"); c != "" {
		return c
	}
	home, _ := os.UserHomeDir()
	return filepath.Join(home, ".cache", "go-build")
}
