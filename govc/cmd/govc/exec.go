package main

import (
	"fmt"
	"go/token"
	"go/types"
	"sort"
	"strings"

	"golang.org/x/tools/go/ssa"
)

// Val is the symbolic value of an SSA value.
type Val struct {
	T   string  // SMT term
	Tup []*Val  // tuple components
	A   *Addr   // interior address (FieldAddr/IndexAddr/Global results)
	Fn  *ssa.Function // statically known function / closure body
	FV  []*Val  // closure bindings
}

// Addr is an lvalue: a root heap location plus a path of struct fields inside it.
type Addr struct {
	Comp  *Component
	Ref   string // cell ref or array id
	Idx   string // "" for a cell; absolute element index for an array root
	Path  []pathEl
	Typ   types.Type // type of the addressed location
	Const string     // immutable global: the value itself (no heap access)
}

type pathEl struct {
	St    types.Type // struct type
	Field int
}

// State is the mutable part of the symbolic store: one term per heap component
// and the allocation frontier.
type State struct {
	heap  map[string]string
	alloc string
	epoch int
}

func (s *State) clone() *State {
	h := make(map[string]string, len(s.heap))
	for k, v := range s.heap {
		h[k] = v
	}
	return &State{heap: h, alloc: s.alloc, epoch: s.epoch}
}

func (vc *VC) heapOf(st *State, c *Component) string {
	if t, ok := st.heap[c.Name]; ok {
		return t
	}
	// ghost state of a channel producer: nothing has been sent at function entry
	if st.epoch == 0 {
		if strings.HasPrefix(c.Name, "ChanFinal_") || strings.HasPrefix(c.Name, "ChanDrained_") {
			return "false"
		}
		if strings.HasPrefix(c.Name, "ChanCount_") {
			return "0"
		}
	}
	n := fmt.Sprintf("H%d_%s", st.epoch, c.Name)
	if !vc.declared[n] {
		vc.declareNamed(n, c.Sort)
		bound := ""
		if st.epoch == 0 {
			bound = "alloc0" // entry heap: every stored reference predates the call
		}
		vc.heapTypeInv(c, n, -1, bound)
	}
	return n
}

// heapTypeInv states, for an unconstrained heap array h (entry heap, or the
// result of a havoc), the facts the Go runtime guarantees for every stored
// value: integer ranges, slice headers with 0 <= len <= cap, and so on.
func (vc *VC) heapTypeInv(c *Component, h string, blk int, bound string) {
	var T types.Type = c.T // cells: content type; arrays: element type
	if m, isMap := c.T.Underlying().(*types.Map); isMap && !c.IsArr {
		// map values: every stored value satisfies its type invariant (in
		// particular stored references predate the frontier)
		if strings.HasPrefix(c.Name, "MapV_") && bound != "" {
			vc.ctr++
			r, k := fmt.Sprintf("r!%d", vc.ctr), fmt.Sprintf("k!%d", vc.ctr)
			x := "(select (select " + h + " " + r + ") " + k + ")"
			if inv := vc.typeInv(x, m.Elem(), bound); inv != "true" {
				vc.facts = append(vc.facts, Fact{fmt.Sprintf("(forall ((%s Int) (%s %s)) (! (=> (< %s %s) %s) :pattern (%s)))", r, k, vc.S.sortOf(m.Key()), r, bound, inv, x), "type invariant of stored map values (" + c.Name + ")", blk})
			}
		}
		return
	}
	// bound: the allocation frontier at the point where h is the heap; every
	// reference stored in h was allocated before it. Cells get the full (deep)
	// invariant; arrays of structs/interfaces only when no bound is given are
	// skipped (their invariants are asserted where a value is loaded).
	if bound == "" {
		switch T.Underlying().(type) {
		case *types.Basic, *types.Slice, *types.Pointer:
		default:
			return
		}
	}
	vc.ctr++
	r := fmt.Sprintf("r!%d", vc.ctr)
	if c.IsArr {
		k := fmt.Sprintf("k!%d", vc.ctr)
		x := "(select (select " + h + " " + r + ") " + k + ")"
		inv := vc.typeInv(x, T, bound)
		if inv == "true" {
			return
		}
		vc.facts = append(vc.facts, Fact{fmt.Sprintf("(forall ((%s Int) (%s Int)) (! %s :pattern (%s)))", r, k, guardAlloc(r, bound, inv), x), "type invariant of stored values (" + c.Name + ")", blk})
		return
	}
	x := "(select " + h + " " + r + ")"
	inv := vc.typeInv(x, T, bound)
	if inv == "true" {
		return
	}
	vc.facts = append(vc.facts, Fact{fmt.Sprintf("(forall ((%s Int)) (! %s :pattern (%s)))", r, guardAlloc(r, bound, inv), x), "type invariant of stored values (" + c.Name + ")", blk})
}

// guardAlloc restricts a stored-value invariant that mentions the allocation
// frontier to references below that frontier: what lies beyond it is not part of
// the heap yet and must stay unconstrained (allocation does not change the heap
// variable of a component that is only allocated in).
func guardAlloc(r, bound, inv string) string {
	if bound == "" {
		return inv
	}
	return "(=> (< " + r + " " + bound + ") " + inv + ")"
}

type retInfo struct {
	cond string
	vals []*Val
	st   *State
}

type loopInfo struct {
	header  *ssa.BasicBlock
	ordinal int
	blocks  map[*ssa.BasicBlock]bool
	latches []*ssa.BasicBlock
	preHeap *State // state at loop entry (loops with their own modifies clause)
	bound   string // allocation frontier at loop entry
	entryNames map[string]*specBinding // loop-carried locals: their values at loop entry
}

// Frame executes one function body (top-level or inlined).
type Frame struct {
	vc     *VC
	fn     *ssa.Function
	con    *Contract // contract of fn when top-level
	top    bool
	depth  int
	prefix string

	env     map[ssa.Value]*Val
	at      map[*ssa.BasicBlock]string
	out     map[*ssa.BasicBlock]*State
	edge    map[[2]int]string
	rets    []retInfo
	entry   *State // state at entry (old)
	entryAt string

	loops    map[*ssa.BasicBlock]*loopInfo
	backEdge map[[2]int]bool
	order    []*ssa.BasicBlock

	// spec name bindings for the top-level function
	names map[string]*specBinding

	modLocs []modLoc // own modifies, evaluated at entry (top only)

	chans   map[ssa.Value]*chanProd // channels whose producer is known (consumer side)
	chanCap map[ssa.Value]string
	defers  []deferred
	closed  map[string]string // producer side: condition under which a channel has been closed

	selfVal       string    // function value of the dynamic call being translated ("self")
	loopCon       *Contract // own contract supplying loop invariants (interface-contract mode)
	loopNamesBase map[string]*specBinding
}

func (vc *VC) newFrame(fn *ssa.Function, top bool, depth int) *Frame {
	vc.ctr++
	return &Frame{vc: vc, fn: fn, top: top, depth: depth, prefix: fmt.Sprintf("f%d", vc.ctr),
		env: map[ssa.Value]*Val{}, at: map[*ssa.BasicBlock]string{}, out: map[*ssa.BasicBlock]*State{},
		edge: map[[2]int]string{}, loops: map[*ssa.BasicBlock]*loopInfo{}, backEdge: map[[2]int]bool{},
		names: map[string]*specBinding{}}
}

// analyseCFG finds back edges, natural loops and a topological order of the
// loop-cut CFG.
func (f *Frame) analyseCFG() {
	fn := f.fn
	if len(fn.Blocks) == 0 {
		return
	}
	// back edges: u->h with h dominating u
	for _, u := range fn.Blocks {
		for _, h := range u.Succs {
			if h.Dominates(u) {
				f.backEdge[[2]int{u.Index, h.Index}] = true
				li := f.loops[h]
				if li == nil {
					li = &loopInfo{header: h, blocks: map[*ssa.BasicBlock]bool{h: true}}
					f.loops[h] = li
				}
				li.latches = append(li.latches, u)
				// body: nodes reaching u without passing h
				stack := []*ssa.BasicBlock{u}
				for len(stack) > 0 {
					x := stack[len(stack)-1]
					stack = stack[:len(stack)-1]
					if li.blocks[x] {
						continue
					}
					li.blocks[x] = true
					for _, p := range x.Preds {
						stack = append(stack, p)
					}
				}
			}
		}
	}
	// ordinals by header index (source order)
	var hs []*ssa.BasicBlock
	for h := range f.loops {
		hs = append(hs, h)
	}
	sort.Slice(hs, func(i, j int) bool { return f.headerPos(hs[i]) < f.headerPos(hs[j]) })
	for i, h := range hs {
		f.loops[h].ordinal = i
	}
	// reverse postorder ignoring back edges
	seen := map[*ssa.BasicBlock]bool{}
	var post []*ssa.BasicBlock
	var dfs func(b *ssa.BasicBlock)
	dfs = func(b *ssa.BasicBlock) {
		seen[b] = true
		for _, s := range b.Succs {
			if f.backEdge[[2]int{b.Index, s.Index}] || seen[s] {
				continue
			}
			dfs(s)
		}
		post = append(post, b)
	}
	dfs(fn.Blocks[0])
	for i := len(post) - 1; i >= 0; i-- {
		f.order = append(f.order, post[i])
	}
}

// headerPos orders loops by the source position of the loop (the smallest
// position of an instruction in the header or its latches), falling back on the
// block index.
func (f *Frame) headerPos(h *ssa.BasicBlock) int {
	best := token.Pos(0)
	consider := func(b *ssa.BasicBlock) {
		for _, in := range b.Instrs {
			if _, ok := in.(*ssa.DebugRef); ok {
				continue
			}
			if _, ok := in.(*ssa.Phi); ok {
				// a phi carries the position of the variable's declaration, which
				// may precede earlier loops (var errs ...; for ... {}; for ... {})
				continue
			}
			if p := in.Pos(); p.IsValid() && (best == 0 || p < best) {
				best = p
			}
		}
	}
	consider(h)
	if best == 0 {
		for _, s := range h.Succs {
			consider(s)
		}
	}
	if best == 0 {
		return 1<<40 + h.Index
	}
	return int(best)
}

func (f *Frame) nm(s string) string { return f.prefix + "_" + s }

func (f *Frame) val(v ssa.Value) *Val {
	switch x := v.(type) {
	case *ssa.Const:
		return &Val{T: f.vc.constTerm(x)}
	case *ssa.Global:
		return &Val{A: f.vc.globalAddr(x), T: f.vc.G.ref(f.vc, x)}
	case *ssa.Function:
		return &Val{T: f.vc.funcId(x), Fn: x}
	case *ssa.Builtin:
		panic(unsupported{"builtin as value"})
	}
	r, ok := f.env[v]
	if !ok {
		panic(unsupported{fmt.Sprintf("value %s (%T) used before definition", v.Name(), v)})
	}
	return r
}

func (f *Frame) term(v ssa.Value) string {
	x := f.val(v)
	if x.T == "" {
		if x.A != nil {
			panic(unsupported{"interior pointer " + v.Name() + " used as a value"})
		}
		panic(unsupported{"value " + v.Name() + " has no term"})
	}
	return x.T
}

func (vc *VC) funcId(fn *ssa.Function) string {
	n := "fn_" + sanitize(canonName(fn))
	vc.declareNamed(n, "Int")
	return n
}

// addrOf turns a pointer-typed SSA value into an Addr.
func (f *Frame) addrOf(v ssa.Value) *Addr {
	x := f.val(v)
	if x.A != nil {
		return x.A
	}
	pt, ok := v.Type().Underlying().(*types.Pointer)
	if !ok {
		panic(unsupported{"address of non-pointer"})
	}
	if _, isArr := pt.Elem().Underlying().(*types.Array); isArr {
		return &Addr{Comp: f.vc.S.arrComp(f.vc.P.arrayTypeOf(v)), Ref: x.T, Typ: pt.Elem()}
	}
	return &Addr{Comp: f.vc.S.cellComp(pt.Elem()), Ref: x.T, Typ: pt.Elem()}
}

func (f *Frame) loadAddr(a *Addr, st *State) string {
	vc := f.vc
	if a.Const != "" {
		t := a.Const
		for _, pe := range a.Path {
			info := vc.S.structInfoOf(pe.St)
			t = "(" + info.Fields[pe.Field] + " " + t + ")"
		}
		return t
	}
	root := f.rootLoad(a, st)
	t := root
	for _, pe := range a.Path {
		info := vc.S.structInfoOf(pe.St)
		if info == nil {
			panic(unsupported{"field of opaque struct"})
		}
		t = "(" + info.Fields[pe.Field] + " " + t + ")"
	}
	return t
}

func (f *Frame) rootLoad(a *Addr, st *State) string {
	h := f.vc.heapOf(st, a.Comp)
	if a.Comp.IsArr {
		if a.Idx == "" {
			return sel(h, a.Ref) // whole array value
		}
		return sel(sel(h, a.Ref), a.Idx)
	}
	return sel(h, a.Ref)
}

func (f *Frame) storeAddr(a *Addr, v string, st *State) {
	vc := f.vc
	if a.Const != "" {
		panic(unsupported{"store to immutable global"})
	}
	h := vc.heapOf(st, a.Comp)
	var newRoot string
	if len(a.Path) == 0 {
		newRoot = v
	} else {
		newRoot = f.updatePath(f.rootLoad(a, st), a.Path, v)
	}
	var nh string
	if a.Comp.IsArr {
		if a.Idx == "" {
			nh = sto(h, a.Ref, newRoot)
		} else {
			nh = sto(h, a.Ref, sto(sel(h, a.Ref), a.Idx, newRoot))
		}
	} else {
		nh = sto(h, a.Ref, newRoot)
	}
	st.heap[a.Comp.Name] = vc.define(a.Comp.Name, a.Comp.Sort, nh)
}

func (f *Frame) updatePath(cur string, path []pathEl, v string) string {
	if len(path) == 0 {
		return v
	}
	info := f.vc.S.structInfoOf(path[0].St)
	var b strings.Builder
	b.WriteString("(" + info.Ctor)
	for i := range info.Fields {
		fld := "(" + info.Fields[i] + " " + cur + ")"
		if i == path[0].Field {
			b.WriteString(" " + f.updatePath(fld, path[1:], v))
		} else {
			b.WriteString(" " + fld)
		}
	}
	b.WriteString(")")
	return b.String()
}

// ---- running a body -----------------------------------------------------------

// run executes fn from state st under path condition at0 with the given
// arguments; returns the merged return values and state.
func (f *Frame) run(args []*Val, fvs []*Val, st *State, at0 string) {
	vc := f.vc
	fn := f.fn
	f.analyseCFG()
	if f.top {
		vc.computeReach(f)
	}
	f.entry = st.clone()
	f.entryAt = at0
	for i, p := range fn.Params {
		f.env[p] = args[i]
	}
	for i, fv := range fn.FreeVars {
		f.env[fv] = fvs[i]
	}
	for _, b := range f.order {
		var at string
		var cur *State
		li := f.loops[b]
		if b.Index == 0 {
			at = at0
			cur = st.clone()
		} else {
			var conds []string
			var states []*State
			var preds []*ssa.BasicBlock
			for _, p := range b.Preds {
				if f.backEdge[[2]int{p.Index, b.Index}] {
					continue
				}
				c, ok := f.edge[[2]int{p.Index, b.Index}]
				if !ok {
					continue // unreachable predecessor (after panic etc.)
				}
				conds = append(conds, c)
				states = append(states, f.out[p])
				preds = append(preds, p)
			}
			if len(conds) == 0 {
				// unreachable block
				f.at[b] = "false"
				f.out[b] = st.clone()
				for _, in := range b.Instrs {
					if v, ok := in.(ssa.Value); ok {
						f.env[v] = &Val{T: "unreachable"}
					}
				}
				continue
			}
			at = vc.define(f.nm(fmt.Sprintf("at%d", b.Index)), "Bool", or(conds...))
			cur = f.mergeStates(conds, states, fmt.Sprintf("b%d", b.Index))
			// phis (non-loop-header: plain ite; header: handled below)
			if li == nil {
				for _, in := range b.Instrs {
					phi, ok := in.(*ssa.Phi)
					if !ok {
						break
					}
					f.env[phi] = f.phiValue(phi, preds, conds)
				}
			} else {
				if f.top {
					vc.curBlk = b.Index
					vc.setCurLoopFrame(b) // the enclosing frame (this loop's is registered below)
				}
				f.enterLoop(li, b, preds, conds, at, cur)
			}
		}
		f.at[b] = at
		if f.top {
			vc.curBlk = b.Index
			vc.setCurLoopFrame(b)
		}
		f.execBlock(b, at, cur)
		f.out[b] = cur
	}
}

func (f *Frame) phiValue(phi *ssa.Phi, preds []*ssa.BasicBlock, conds []string) *Val {
	vc := f.vc
	b := phi.Block()
	var t string
	sortName := vc.S.sortOf(phi.Type())
	first := true
	var fnv *ssa.Function
	for k := len(preds) - 1; k >= 0; k-- {
		// index of pred in b.Preds
		var edgeVal ssa.Value
		for i, p := range b.Preds {
			if p == preds[k] {
				edgeVal = phi.Edges[i]
				break
			}
		}
		ev := f.val(edgeVal)
		if ev.T == "" {
			panic(unsupported{"phi over interior pointers"})
		}
		if first {
			t = ev.T
			first = false
			fnv = ev.Fn
		} else {
			t = ite(conds[k], ev.T, t)
			if ev.Fn != fnv {
				fnv = nil
			}
		}
	}
	_ = fnv
	return &Val{T: vc.define(f.nm(phi.Name()), sortName, t)}
}

func (f *Frame) mergeStates(conds []string, states []*State, hint string) *State {
	vc := f.vc
	if len(states) == 1 {
		return states[0].clone()
	}
	res := states[len(states)-1].clone()
	// epoch: all equal in practice; if not, take max and force declared names
	keys := map[string]bool{}
	for _, s := range states {
		for k := range s.heap {
			keys[k] = true
		}
		if s.epoch > res.epoch {
			res.epoch = s.epoch
		}
	}
	for _, k := range sortedKeys(keys) {
		c := vc.S.comps[k]
		t := vc.heapOf(states[len(states)-1], c)
		same := true
		for i := len(states) - 2; i >= 0; i-- {
			ti := vc.heapOf(states[i], c)
			if ti != t {
				same = false
			}
		}
		if !same {
			t = vc.heapOf(states[len(states)-1], c)
			for i := len(states) - 2; i >= 0; i-- {
				t = ite(conds[i], vc.heapOf(states[i], c), t)
			}
			t = vc.define(f.nm(hint+"_"+k), c.Sort, t)
		}
		res.heap[k] = t
	}
	a := states[len(states)-1].alloc
	same := true
	for i := len(states) - 2; i >= 0; i-- {
		if states[i].alloc != a {
			same = false
		}
	}
	if !same {
		for i := len(states) - 2; i >= 0; i-- {
			a = ite(conds[i], states[i].alloc, a)
		}
		a = vc.define(f.nm(hint+"_alloc"), "Int", a)
	}
	res.alloc = a
	return res
}

func (f *Frame) execBlock(b *ssa.BasicBlock, at string, st *State) {
	for _, in := range b.Instrs {
		f.exec(in, at, st)
	}
}

