package main

import (
	"bufio"
	"encoding/json"
	"fmt"
	"os"
	"path/filepath"
	"sort"
	"strings"
)

type finding struct {
	Kind       string // finding | fixed
	Property   string
	Obligation string
	Rest       string
	used       bool
}

// readFindings parses /verif/known_findings.txt.
//   finding: property=C06 obligation=<name> input=<what fails>
//   fixed: property=C06 <commit> <what failed>
func readFindings(path string) []*finding {
	f, err := os.Open(path)
	if err != nil {
		return nil
	}
	defer f.Close()
	var out []*finding
	sc := bufio.NewScanner(f)
	for sc.Scan() {
		line := strings.TrimSpace(sc.Text())
		if line == "" || strings.HasPrefix(line, "#") {
			continue
		}
		var fd finding
		switch {
		case strings.HasPrefix(line, "finding:"):
			fd.Kind = "finding"
			line = strings.TrimSpace(strings.TrimPrefix(line, "finding:"))
		case strings.HasPrefix(line, "fixed:"):
			fd.Kind = "fixed"
			line = strings.TrimSpace(strings.TrimPrefix(line, "fixed:"))
		default:
			continue
		}
		for _, tok := range strings.Fields(line) {
			if strings.HasPrefix(tok, "property=") {
				fd.Property = strings.TrimPrefix(tok, "property=")
			} else if strings.HasPrefix(tok, "obligation=") {
				fd.Obligation = strings.TrimPrefix(tok, "obligation=")
			}
		}
		if i := strings.Index(line, "input="); i >= 0 {
			fd.Rest = line[i:]
		} else {
			fd.Rest = line
		}
		out = append(out, &fd)
	}
	return out
}

// matchFinding: obligation names in the findings file may end in '*' (prefix match)
// so that one root cause reported at several returns is one entry.
func matchFinding(fds []*finding, prop, obl string) *finding {
	for _, fd := range fds {
		if fd.Kind != "finding" || (fd.Property != prop && fd.Property != "*") {
			continue
		}
		if fd.Obligation == obl || (strings.HasSuffix(fd.Obligation, "*") && strings.HasPrefix(obl, strings.TrimSuffix(fd.Obligation, "*"))) {
			return fd
		}
	}
	return nil
}

type oblReport struct {
	Name    string   `json:"name"`
	Kind    string   `json:"kind"`
	Status  string   `json:"status"`
	Answer  string   `json:"answer"`
	Solver  string   `json:"solver"`
	Seconds float64  `json:"seconds"`
	Where   string   `json:"where,omitempty"`
	Clause  string   `json:"clause,omitempty"`
	SMT     string   `json:"smt_file,omitempty"`
	Tried   []string `json:"tried,omitempty"`
}

type evidence struct {
	PropertyID string         `json:"property_id"`
	Tier       string         `json:"tier"`
	Seed       int            `json:"seed"`
	Level      string         `json:"level"`
	Coverage   map[string]any `json:"coverage"`
	Assumptions []string      `json:"assumptions"`
	WallS      float64        `json:"wall_s"`
	Violations int            `json:"violations"`
}

type checkOutcome struct {
	violations []string
	known      []string
}

// report classifies the results for one property, writes replay files and the
// evidence file, prints KNOWN-FINDING / VIOLATION lines, and returns the exit code.
func report(prop, tier string, seed int, verifDir string, results []*FuncResult, lemmas []*Obligation, standins []standinResult, wall float64, genS float64, extraAssume []string, notDecided []string) int {
	fds := readFindings(filepath.Join(verifDir, "known_findings.txt"))
	replayDir := filepath.Join(verifDir, "replays", prop)
	os.RemoveAll(replayDir)
	os.MkdirAll(replayDir, 0o755)
	if sweepEnabled {
		templateSweep = sweepTemplates(verifDir, prop)
	}

	var all []*Obligation
	var functions, outside []string
	assume := map[string]bool{}
	var specErrs []string
	for _, r := range results {
		functions = append(functions, r.Name)
		for _, a := range r.Assumptions {
			assume[a] = true
		}
		if r.vc != nil {
			for a := range r.vc.usedAssumptions {
				assume[a] = true
			}
		}
		all = append(all, r.Obls...)
		if r.Unsupported != "" {
			outside = append(outside, r.Name+": "+r.Unsupported)
		}
		for _, e := range r.SpecErrs {
			specErrs = append(specErrs, r.Name+": "+e)
		}
	}
	all = append(all, lemmas...)

	bySolver := map[string]int{}
	solverSecs := 0.0
	nClaimed, nDischarged, nKnown, nCover, nCoverSat := 0, 0, 0, 0, 0
	var samples []oblReport
	var failed []*Obligation
	var slow []oblReport
	exit := 0
	var lines []string
	for _, o := range all {
		res := o.Result
		if res == nil {
			continue
		}
		solverSecs += res.Seconds
		rep := oblReport{Name: o.Name, Kind: o.Kind, Status: res.Status, Answer: res.Answer, Solver: res.Solver, Seconds: round3(res.Seconds), Where: o.Pos, Clause: o.Src, SMT: res.File, Tried: res.Tried}
		if o.Expect == "sat" {
			nCover++
			if res.Status == "discharged" {
				nCoverSat++
			}
			if res.Status == "vacuous" {
				failed = append(failed, o)
			}
			continue
		}
		if res.Status == "discharged" {
			nClaimed++
			nDischarged++
			bySolver[res.Solver]++
			if len(samples) < 12 && (o.Kind == "ensures" || o.Kind == "inv" || o.Kind == "lemma" || len(samples) < 4) {
				samples = append(samples, rep)
			}
			if res.Seconds > 2 {
				slow = append(slow, rep)
			}
			continue
		}
		failed = append(failed, o)
	}
	// failures that are not solver answers: functions outside the subset, contract errors
	type pseudo struct{ name, why string }
	var pseudos []pseudo
	for _, r := range results {
		if r.Unsupported != "" {
			pseudos = append(pseudos, pseudo{r.Name + "/subset", "function cannot be translated: " + r.Unsupported})
		}
		for _, e := range r.SpecErrs {
			pseudos = append(pseudos, pseudo{r.Name + "/stale-contract", e})
		}
		if r.Unsupported == "" && len(r.Obls) == 0 {
			pseudos = append(pseudos, pseudo{r.Name + "/vacuity/no-obligations", "contract generated zero obligations"})
		}
	}
	if len(results) == 0 && len(lemmas) == 0 && len(standins) == 0 {
		pseudos = append(pseudos, pseudo{prop + "/vacuity/no-contracts", "no contract serves this property"})
	}
	var knownReps []map[string]any
	for _, o := range failed {
		nClaimed++
		if fd := matchFinding(fds, prop, o.Name); fd != nil {
			nClaimed--
			nKnown++
			fd.used = true
			lines = append(lines, fmt.Sprintf("KNOWN-FINDING: property=%s %s %s", prop, o.Name, fd.Rest))
			knownReps = append(knownReps, map[string]any{"obligation": o.Name, "finding": fd.Rest, "answer": o.Result.Answer})
			continue
		}
		path, replayed := writeReplay(replayDir, verifDir, prop, o)
		suffix := ""
		if !replayed {
			suffix = " no-failing-input-found"
		}
		lines = append(lines, fmt.Sprintf("VIOLATION property=%s replay=%s obligation=%s%s", prop, path, o.Name, suffix))
		exit = 1
	}
	for _, p := range pseudos {
		nClaimed++
		if fd := matchFinding(fds, prop, p.name); fd != nil {
			nClaimed--
			nKnown++
			lines = append(lines, fmt.Sprintf("KNOWN-FINDING: property=%s %s %s", prop, p.name, fd.Rest))
			continue
		}
		path := filepath.Join(replayDir, sanitize(p.name)+".txt")
		os.WriteFile(path, []byte("obligation: "+p.name+"\nnot generated: "+p.why+"\n(no solver was run: an obligation that cannot be generated is never a pass)\n"), 0o644)
		lines = append(lines, fmt.Sprintf("VIOLATION property=%s replay=%s obligation=%s no-failing-input-found", prop, path, p.name))
		exit = 1
	}
	var standinReps []map[string]any
	for _, s := range standins {
		standinReps = append(standinReps, map[string]any{"name": s.Name, "bound": s.Bound, "cases": s.Cases, "distinct": s.Distinct, "passed": s.Failure == "", "label": "bounded (not counted as proved)"})
		if s.Failure != "" {
			name := prop + "/bounded/" + s.Name
			if fd := matchFinding(fds, prop, name); fd != nil {
				lines = append(lines, fmt.Sprintf("KNOWN-FINDING: property=%s %s %s", prop, name, fd.Rest))
				continue
			}
			path := filepath.Join(replayDir, sanitize(name)+".txt")
			os.WriteFile(path, []byte("bounded stand-in "+s.Name+" failed\nbound: "+s.Bound+"\n"+s.Failure+"\n"), 0o644)
			lines = append(lines, fmt.Sprintf("VIOLATION property=%s replay=%s obligation=%s", prop, path, name))
			exit = 1
		}
	}
	// thorough tier: property-level templates on the real code (cross-check only)
	for _, sw := range templateSweep {
		if sw.Outcome != "REPRODUCED" {
			continue
		}
		name := prop + "/sweep/" + sw.Template
		if fd := matchFinding(fds, prop, name); fd != nil {
			lines = append(lines, fmt.Sprintf("KNOWN-FINDING: property=%s %s %s", prop, name, fd.Rest))
			continue
		}
		lines = append(lines, fmt.Sprintf("VIOLATION property=%s replay=%s obligation=%s", prop, sw.ReplayFile, name))
		exit = 1
	}
	sort.Strings(lines)
	for _, l := range lines {
		fmt.Println(l)
	}

	var assumptions []string
	for a := range assume {
		assumptions = append(assumptions, a)
	}
	assumptions = append(assumptions, extraAssume...)
	assumptions = append(assumptions,
		"go/ssa (x/tools v0.29.0) and go/types represent /repo's source faithfully; govc's SSA-to-SMT translation is correct (mitigated by the must-fail corpus and replays, not proved)",
		"integers: mathematical Int with Go's wrap-around made explicit per operation (not treated as unbounded); bit operators uninterpreted",
		"closed world: the implementors of the module's interfaces are the module's own types (recomputed each run)",
		"not modelled: goroutine interleavings, text produced by fmt, wall-clock time, memory exhaustion, stack depth, internals of dependencies",
		"any len/cap is at most 2^48 (address-space bound)")
	sort.Strings(assumptions)
	sort.Strings(functions)
	sort.Strings(outside)
	trusted := []string{"z3 5.1.0 / z3 4.8.12 / cvc5 1.0.3 (unsat answers)", "go/ssa + go/types (x/tools v0.29.0), go1.23.5 front end", "govc VC generator (/verif/govc)"}
	for _, a := range assumptions {
		if strings.HasPrefix(a, "assumed contract of ") || strings.HasPrefix(a, "spec axiom") || strings.HasPrefix(a, "unspecified external") || strings.HasPrefix(a, "function values of type") {
			trusted = append(trusted, a)
		}
	}
	sort.Slice(slow, func(i, j int) bool { return slow[i].Seconds > slow[j].Seconds })
	if len(slow) > 8 {
		slow = slow[:8]
	}
	var sampleAny []any
	for _, s := range samples {
		sampleAny = append(sampleAny, s)
	}
	if len(sampleAny) == 0 {
		for _, o := range all {
			if o.Result != nil {
				sampleAny = append(sampleAny, oblReport{Name: o.Name, Kind: o.Kind, Status: o.Result.Status, Answer: o.Result.Answer})
				break
			}
		}
	}
	cov := map[string]any{
		"obligations":                nClaimed,
		"discharged":                 nDischarged,
		"known_finding_obligations":  nKnown,
		"known_findings":             knownReps,
		"checker_cmd":                fmt.Sprintf("/verif/bin/check %s %s", prop, tier),
		"trusted_base":               trusted,
		"functions_under_contract":   functions,
		"functions_outside_subset":   outside,
		"contract_errors":            specErrs,
		"by_solver":                  bySolver,
		"solver_seconds":             round3(solverSecs),
		"vc_generation_seconds":      round3(genS),
		"slowest":                    slow,
		"samples":                    sampleAny,
		"vacuity":                    map[string]any{"cover_queries": nCover, "cover_sat": nCoverSat, "rule": "requires+assumed facts must be satisfiable on a path to a return; each loop invariant must be satisfiable at its header; unsat is reported as a failed obligation"},
		"bounded_standins":           standinReps,
		"not_decided":                notDecided,
		"template_sweep":             templateSweep,
		"explanation":                "contract-based deductive verification: every obligation is a self-contained SMT-LIB query generated from /repo's SSA on this run; discharged = unsat",
	}
	ev := evidence{PropertyID: prop, Tier: tier, Seed: seed, Level: "proof", Coverage: cov, Assumptions: assumptions, WallS: round3(wall), Violations: boolToInt(exit != 0)}
	if exit != 0 {
		n := 0
		for _, l := range lines {
			if strings.HasPrefix(l, "VIOLATION") {
				n++
			}
		}
		ev.Violations = n
	}
	// disk: the query of a discharged obligation is regenerated on every run; keep
	// only the files the evidence points to (samples, slowest) and those of failed
	// obligations (GOVC_KEEP_SMT=1 keeps everything, for debugging)
	if os.Getenv("GOVC_KEEP_SMT") == "" {
		keep := map[string]bool{}
		for _, s := range samples {
			keep[s.SMT] = true
		}
		for _, s := range slow {
			keep[s.SMT] = true
		}
		for _, o := range all {
			if o.Result != nil && o.Result.Status == "discharged" && o.Result.File != "" && !keep[o.Result.File] {
				os.Remove(o.Result.File)
			}
		}
	}
	os.MkdirAll(filepath.Join(verifDir, "evidence"), 0o755)
	data, _ := json.MarshalIndent(ev, "", " ")
	os.WriteFile(filepath.Join(verifDir, "evidence", prop+".json"), append(data, '\n'), 0o644)
	fmt.Printf("property=%s tier=%s functions=%d obligations=%d discharged=%d known=%d violations=%d wall=%.1fs\n", prop, tier, len(functions), nClaimed, nDischarged, nKnown, ev.Violations, wall)
	return exit
}

func round3(x float64) float64 { return float64(int(x*1000+0.5)) / 1000 }

func boolToInt(b bool) int {
	if b {
		return 1
	}
	return 0
}

// templateSweep: results of the thorough-tier template sweep (set by main).
var templateSweep []sweepResult
var sweepEnabled bool

type standinResult struct {
	Name     string
	Bound    string
	Cases    int
	Distinct int
	Failure  string
}

// writeReplay writes the replay file of a failed obligation and tries to
// reproduce the failure on the real code. Returns the path and whether a
// concrete failing input was demonstrated.
func writeReplay(dir, verifDir, prop string, o *Obligation) (string, bool) {
	path := filepath.Join(dir, sanitize(o.Name)+".txt")
	if len(path) > 240 {
		path = path[:225] + fmt.Sprintf("_%x.txt", hashString(o.Name))
	}
	var b strings.Builder
	res := o.Result
	fmt.Fprintf(&b, "obligation: %s\nproperty: %s\nkind: %s\nwhere: %s\nclause: %s\nsolver answer: %s (%s)\ntried: %s\nsmt file: %s\n",
		o.Name, prop, o.Kind, o.Pos, o.Src, res.Answer, res.Solver, strings.Join(res.Tried, " "), res.File)
	if res.Status == "vacuous" {
		b.WriteString("\nThe assumptions of this function are unsatisfiable on the path checked (cover query returned unsat): everything after it would pass vacuously.\n")
	}
	replayed := false
	if res.Model != "" {
		if res.ModelRelaxed {
			b.WriteString("\nmodel (from the relaxed query without quantified assumptions; a candidate only):\n")
		} else {
			b.WriteString("\nmodel:\n")
		}
		inputs := modelInputs(o, res.Model)
		b.WriteString(inputs)
		out, ok := tryReplay(verifDir, prop, o, res.Model)
		if out != "" {
			b.WriteString("\nreplay on the real code:\n" + out + "\n")
		}
		replayed = ok
	} else {
		b.WriteString("\nno model: the solvers answered " + res.Answer + " (undecided obligations are reported, never passed)\n")
		out, ok := tryReplay(verifDir, prop, o, "")
		if out != "" {
			b.WriteString("\nproperty-level replay search on the real code:\n" + out + "\n")
		}
		replayed = ok
	}
	if !replayed {
		b.WriteString("\nresult: no-failing-input-found\n")
	} else {
		b.WriteString("\nresult: failing input reproduced on the real code\n")
	}
	if res.Output != "" {
		b.WriteString("\nsolver output:\n" + firstLines(res.Output, 40) + "\n")
	}
	os.WriteFile(path, []byte(b.String()), 0o644)
	return path, replayed
}

// modelInputs extracts the values of the function's parameters from a model.
func modelInputs(o *Obligation, model string) string {
	var b strings.Builder
	lines := strings.Split(model, "\n")
	for i, l := range lines {
		t := strings.TrimSpace(l)
		if strings.HasPrefix(t, "(define-fun p_") || strings.HasPrefix(t, "(define-fun fv_") {
			b.WriteString("  " + t)
			for j := i + 1; j < len(lines) && j < i+6; j++ {
				u := strings.TrimSpace(lines[j])
				if strings.HasPrefix(u, "(define-fun") {
					break
				}
				b.WriteString(" " + u)
			}
			b.WriteString("\n")
		}
	}
	return b.String()
}
