package main

import (
	"fmt"
	"go/types"
	"sort"
	"strings"
)

// Sorts maps Go types to SMT sorts and collects the datatype declarations and
// heap components that a query needs. One instance per VC-generation context
// (shared by all obligations of one function).
type Sorts struct {
	P *Program

	dtOrder []string            // datatype names in declaration order
	dtDecl  map[string]string   // name -> "((ctor (f S) ...) ...)" body
	dtOf    map[string]string   // type key -> datatype name
	structs map[string]*structInfo
	ifaces  map[string]*ifaceInfo

	comps     map[string]*Component
	compOrder []string

	anon int
}

type structInfo struct {
	Name   string
	Ctor   string
	T      types.Type // named or struct
	S      *types.Struct
	Fields []string // accessor names
	FSorts []string
}

type ifaceInfo struct {
	Name  string
	N     *types.Named
	Impls []types.Type
	Ctors []string // constructor per implementor
	Projs []string // projection accessor per implementor
	Nil   string
}

// Component is one heap array: Cell_T (Ref -> T) or Arr_E (ArrId -> Int -> E).
type Component struct {
	Name  string
	Sort  string // full SMT sort of the component
	VSort string // sort of the stored value (cell content or element)
	IsArr bool
	T     types.Type // content type (cell) or element type (arr)
}

func newSorts(P *Program) *Sorts {
	return &Sorts{P: P, dtDecl: map[string]string{}, dtOf: map[string]string{},
		structs: map[string]*structInfo{}, ifaces: map[string]*ifaceInfo{}, comps: map[string]*Component{}}
}

func mangle(s string) string {
	s = strings.ReplaceAll(s, modPath+"/", "")
	s = strings.ReplaceAll(s, modPath, "biscuit")
	var b strings.Builder
	for _, r := range s {
		switch {
		case r >= 'a' && r <= 'z', r >= 'A' && r <= 'Z', r >= '0' && r <= '9', r == '_':
			b.WriteRune(r)
		case r == '*':
			b.WriteString("P")
		case r == '[':
			b.WriteString("L")
		case r == ']':
			b.WriteString("R")
		default:
			b.WriteString("_")
		}
	}
	return b.String()
}

func typeKey(t types.Type) string { return types.TypeString(t, nil) }

// sortOf returns the SMT sort of values of Go type t.
func (S *Sorts) sortOf(t types.Type) string {
	switch u := t.(type) {
	case *types.Named:
		if _, ok := u.Underlying().(*types.Struct); ok {
			return S.structSort(u)
		}
		if _, ok := u.Underlying().(*types.Interface); ok {
			if n, ok := S.P.closedInterface(u); ok {
				return S.ifaceSort(n)
			}
			return "Int"
		}
		return S.sortOf(u.Underlying())
	case *types.Alias:
		return S.sortOf(types.Unalias(u))
	case *types.Basic:
		switch {
		case u.Info()&types.IsBoolean != 0:
			return "Bool"
		case u.Info()&types.IsInteger != 0:
			return "Int"
		case u.Info()&types.IsString != 0:
			return "Str"
		case u.Kind() == types.UnsafePointer:
			return "Int"
		case u.Kind() == types.UntypedNil:
			return "Int"
		}
		return "Opaque"
	case *types.Pointer, *types.Map, *types.Chan, *types.Signature:
		return "Int"
	case *types.Slice:
		return "Slice"
	case *types.Array:
		return "(Array Int " + S.sortOf(u.Elem()) + ")"
	case *types.Struct:
		return S.structSort(u)
	case *types.Interface:
		return "Int"
	case *types.Tuple:
		return "Tuple!"
	}
	return "Opaque"
}

func (S *Sorts) structInfoOf(t types.Type) *structInfo {
	t = types.Unalias(t)
	S.structSort(t)
	return S.structs[typeKey(t)]
}

func (S *Sorts) structSort(t types.Type) string {
	t = types.Unalias(t)
	key := typeKey(t)
	if n, ok := S.dtOf[key]; ok {
		return n
	}
	st := t.Underlying().(*types.Struct)
	if n, ok := t.(*types.Named); ok {
		if n.Obj().Pkg() != nil && !S.P.Module[n.Obj().Pkg()] {
			// foreign struct (time.Time, big.Int, protoimpl.MessageState...): opaque value
			S.dtOf[key] = "Opaque"
			return "Opaque"
		}
	}
	// a struct with unexported fields of a foreign package (type Date time.Time):
	// the same opaque value as the foreign type it was converted from
	for i := 0; i < st.NumFields(); i++ {
		if f := st.Field(i); !f.Exported() && f.Pkg() != nil && !S.P.Module[f.Pkg()] {
			S.dtOf[key] = "Opaque"
			return "Opaque"
		}
	}
	var name string
	if n, ok := t.(*types.Named); ok {
		name = "S_" + mangle(shortPkg(n.Obj().Pkg().Path())+"_"+n.Obj().Name())
	} else {
		S.anon++
		name = fmt.Sprintf("S_anon%d", S.anon)
	}
	S.dtOf[key] = name
	info := &structInfo{Name: name, Ctor: "mk_" + name, T: t, S: st}
	S.structs[key] = info
	// reserve order slot after dependencies: compute field sorts first
	for i := 0; i < st.NumFields(); i++ {
		f := st.Field(i)
		fs := S.sortOf(f.Type())
		info.Fields = append(info.Fields, fmt.Sprintf("%s_%s", name, mangle(f.Name())))
		info.FSorts = append(info.FSorts, fs)
	}
	var b strings.Builder
	b.WriteString("((" + info.Ctor)
	for i := range info.Fields {
		fmt.Fprintf(&b, " (%s %s)", info.Fields[i], info.FSorts[i])
	}
	b.WriteString("))")
	S.dtDecl[name] = b.String()
	S.dtOrder = append(S.dtOrder, name)
	return name
}

func (S *Sorts) ifaceInfoOf(n *types.Named) *ifaceInfo {
	S.ifaceSort(n)
	return S.ifaces[typeKey(n)]
}

func (S *Sorts) ifaceSort(n *types.Named) string {
	key := typeKey(n)
	if nm, ok := S.dtOf[key]; ok {
		return nm
	}
	name := "I_" + mangle(shortPkg(n.Obj().Pkg().Path())+"_"+n.Obj().Name())
	S.dtOf[key] = name
	info := &ifaceInfo{Name: name, N: n, Nil: "nil_" + name}
	S.ifaces[key] = info
	info.Impls = S.P.implementors(n)
	var b strings.Builder
	b.WriteString("((" + info.Nil + ")")
	for _, T := range info.Impls {
		tn := mangle(types.TypeString(T, func(p *types.Package) string { return shortPkg(p.Path()) }))
		ctor := fmt.Sprintf("mk_%s_%s", name, tn)
		proj := fmt.Sprintf("un_%s_%s", name, tn)
		info.Ctors = append(info.Ctors, ctor)
		info.Projs = append(info.Projs, proj)
		fmt.Fprintf(&b, " (%s (%s %s))", ctor, proj, S.sortOf(T))
	}
	b.WriteString(")")
	S.dtDecl[name] = b.String()
	S.dtOrder = append(S.dtOrder, name)
	return name
}

// implIndex finds the constructor index of concrete type T in a closed interface.
func (info *ifaceInfo) implIndex(T types.Type) int {
	for i, x := range info.Impls {
		if types.Identical(x, T) {
			return i
		}
	}
	return -1
}

// cellComp returns the heap component holding values of type T behind *T.
func (S *Sorts) cellComp(T types.Type) *Component {
	if _, ok := T.Underlying().(*types.Array); ok {
		// pointer-to-array: the ref is an array id in the array's class
		return S.arrComp(T)
	}
	name := "Cell_" + mangle(types.TypeString(T, func(p *types.Package) string { return shortPkg(p.Path()) }))
	if c, ok := S.comps[name]; ok {
		return c
	}
	vs := S.sortOf(T)
	c := &Component{Name: name, Sort: "(Array Int " + vs + ")", VSort: vs, T: T}
	S.comps[name] = c
	S.compOrder = append(S.compOrder, name)
	return c
}

// arrComp returns the heap component holding the backing arrays of slices of
// type T (a slice or array type). Components are per class of slice types
// (classes.go), not per element type.
func (S *Sorts) arrComp(T types.Type) *Component {
	var E types.Type
	switch u := T.Underlying().(type) {
	case *types.Slice:
		E = u.Elem()
	case *types.Array:
		E = u.Elem()
	default:
		panic(unsupported{"arrComp of non-slice " + T.String()})
	}
	class := S.P.sliceClass(T)
	name := "Arr_" + mangle(class)
	if c, ok := S.comps[name]; ok {
		return c
	}
	vs := S.sortOf(E)
	c := &Component{Name: name, Sort: "(Array Int (Array Int " + vs + "))", VSort: vs, IsArr: true, T: E}
	S.comps[name] = c
	S.compOrder = append(S.compOrder, name)
	return c
}

// mapComp: maps are refs into a component of (Array K V) plus a domain component.
func (S *Sorts) mapComps(m *types.Map) (val, dom *Component) {
	base := mangle(types.TypeString(m, func(p *types.Package) string { return shortPkg(p.Path()) }))
	ks, vs := S.sortOf(m.Key()), S.sortOf(m.Elem())
	vn, dn := "MapV_"+base, "MapD_"+base
	if c, ok := S.comps[vn]; ok {
		return c, S.comps[dn]
	}
	val = &Component{Name: vn, Sort: "(Array Int (Array " + ks + " " + vs + "))", VSort: vs, T: m}
	dom = &Component{Name: dn, Sort: "(Array Int (Array " + ks + " Bool))", VSort: "Bool", T: m}
	S.comps[vn], S.comps[dn] = val, dom
	S.compOrder = append(S.compOrder, vn, dn)
	return
}

// prelude emits sort/datatype declarations (everything registered so far).
func (S *Sorts) prelude() string {
	var b strings.Builder
	b.WriteString("(declare-sort Str 0)\n(declare-sort Opaque 0)\n(declare-sort Bytes 0)\n")
	names := append([]string{}, S.dtOrder...)
	// one mutually recursive block: Slice first (fields reference it)
	b.WriteString("(declare-datatypes ((Slice 0)")
	for _, n := range names {
		b.WriteString(" (" + n + " 0)")
	}
	b.WriteString(") (\n  ((mk_slice (s_arr Int) (s_off Int) (s_len Int) (s_cap Int)))\n")
	for _, n := range names {
		b.WriteString("  " + S.dtDecl[n] + "\n")
	}
	b.WriteString("))\n")
	return b.String()
}

func sortedKeys[V any](m map[string]V) []string {
	var ks []string
	for k := range m {
		ks = append(ks, k)
	}
	sort.Strings(ks)
	return ks
}

// intRange returns (min,max,ok) for integer basic types.
func intRange(t types.Type) (string, string, bool) {
	b, ok := t.Underlying().(*types.Basic)
	if !ok || b.Info()&types.IsInteger == 0 {
		return "", "", false
	}
	switch b.Kind() {
	case types.Int8:
		return "(- 128)", "127", true
	case types.Int16:
		return "(- 32768)", "32767", true
	case types.Int32:
		return "(- 2147483648)", "2147483647", true
	case types.Int, types.Int64, types.UntypedInt:
		return "(- 9223372036854775808)", "9223372036854775807", true
	case types.Uint8:
		return "0", "255", true
	case types.Uint16:
		return "0", "65535", true
	case types.Uint32:
		return "0", "4294967295", true
	case types.Uint, types.Uint64, types.Uintptr:
		return "0", "18446744073709551615", true
	}
	return "", "", false
}

func intBits(t types.Type) (bits int, signed bool) {
	b := t.Underlying().(*types.Basic)
	switch b.Kind() {
	case types.Int8:
		return 8, true
	case types.Int16:
		return 16, true
	case types.Int32:
		return 32, true
	case types.Int, types.Int64, types.UntypedInt:
		return 64, true
	case types.Uint8:
		return 8, false
	case types.Uint16:
		return 16, false
	case types.Uint32:
		return 32, false
	}
	return 64, false
}
