package main

import (
	"fmt"
	"go/constant"
	"go/types"
	"strings"

	"golang.org/x/tools/go/ssa"
)

// specVal is a translated contract expression: SMT term plus its Go type (nil
// for ghost sorts) and SMT sort.
type specVal struct {
	T    string
	Typ  types.Type
	Sort string
	Nil  bool // the untyped nil literal
}

type specBinding struct {
	V     specVal
	Deref bool // name denotes *V (captured variable / address-taken local)
}

type specEnv struct {
	vc       *VC
	pkg      *types.Package
	names    map[string]*specBinding
	pre      *State
	cur      *State
	post     *State // set inside old(...): the state that now(...) returns to
	loopPre  *State // state at entry of the enclosing loop (pre(...))
	loopEntryNames map[string]*specBinding // loop-carried locals at loop entry (pre(x))
	loopBound string
	allocPre string
	bound    []map[string]specVal
	lets     map[string]*Expr
	letDepth int
}

type specErr struct{ msg string }

func sfail(format string, a ...any) { panic(specErr{fmt.Sprintf(format, a...)}) }

func (env *specEnv) child() *specEnv {
	c := *env
	return &c
}

// trBool translates a clause to a Bool term.
func (env *specEnv) trBool(e *Expr) (t string, err error) {
	defer func() {
		if r := recover(); r != nil {
			switch x := r.(type) {
			case specErr:
				err = fmt.Errorf("%s", x.msg)
			case unsupported:
				err = fmt.Errorf("unsupported: %s", x.why)
			default:
				panic(r)
			}
		}
	}()
	v := env.tr(e)
	if v.Sort != "Bool" {
		return "", fmt.Errorf("clause is not boolean: %s (sort %s)", e, v.Sort)
	}
	return v.T, nil
}

func (env *specEnv) lookupBound(n string) (specVal, bool) {
	for i := len(env.bound) - 1; i >= 0; i-- {
		if v, ok := env.bound[i][n]; ok {
			return v, true
		}
	}
	return specVal{}, false
}

func (vc *VC) sv(t string, typ types.Type) specVal {
	return specVal{T: t, Typ: typ, Sort: vc.S.sortOf(typ)}
}

func ghost(t, sort string) specVal { return specVal{T: t, Sort: sort} }

func (env *specEnv) heap(c *Component) string { return env.vc.heapOf(env.cur, c) }

func (env *specEnv) tr(e *Expr) specVal {
	vc := env.vc
	switch e.Op {
	case "paren":
		return env.tr(e.Args[0])
	case "num":
		return ghost(e.Name, "Int")
	case "str":
		return specVal{T: vc.strlit(e.Name), Typ: types.Typ[types.String], Sort: "Str"}
	case "true", "false":
		return ghost(e.Op, "Bool")
	case "nil":
		return specVal{Nil: true, T: "0", Sort: "Int"}
	case "ident":
		return env.ident(e.Name)
	case "old":
		c := env.child()
		if c.post == nil {
			c.post = env.cur
		}
		c.cur = env.pre
		return c.tr(e.Args[0])
	case "un":
		x := env.tr(e.Args[0])
		if e.Name == "!" {
			if x.Sort != "Bool" {
				sfail("! on non-bool %s", e.Args[0])
			}
			return ghost(not(x.T), "Bool")
		}
		return ghost("(- "+x.T+")", "Int")
	case "deref":
		x := env.tr(e.Args[0])
		return env.deref(x, e)
	case "sel":
		// package-qualified object: pkg.Name
		if b := e.Args[0]; b.Op == "ident" {
			if _, bound := env.lookupBound(b.Name); !bound && env.names[b.Name] == nil && env.lets[b.Name] == nil && env.pkg.Scope().Lookup(b.Name) == nil {
				if p := env.findPackage(b.Name); p != nil {
					if obj := p.Scope().Lookup(e.Name); obj != nil {
						return env.object(obj)
					}
					sfail("no %s in package %s", e.Name, b.Name)
				}
			}
		}
		return env.sel(env.tr(e.Args[0]), e.Name, e)
	case "index":
		return env.index(env.tr(e.Args[0]), env.tr(e.Args[1]), e)
	case "slice":
		s := env.tr(e.Args[0])
		if s.Sort != "Slice" {
			sfail("slice expression on non-slice %s", e.Args[0])
		}
		lo, hi := "0", "(s_len "+s.T+")"
		if e.Args[1] != nil {
			lo = env.tr(e.Args[1]).T
		}
		if e.Args[2] != nil {
			hi = env.tr(e.Args[2]).T
		}
		return specVal{T: fmt.Sprintf("(mk_slice (s_arr %s) (+ (s_off %s) %s) (- %s %s) (- (s_cap %s) %s))", s.T, s.T, lo, hi, lo, s.T, lo), Typ: s.Typ, Sort: "Slice"}
	case "cond":
		c, a, b := env.tr(e.Args[0]), env.tr(e.Args[1]), env.tr(e.Args[2])
		a, b = env.unify(a, b)
		return specVal{T: ite(c.T, a.T, b.T), Typ: a.Typ, Sort: a.Sort}
	case "is":
		x := env.tr(e.Args[0])
		return ghost(env.isType(x, e.Name), "Bool")
	case "assert":
		x := env.tr(e.Args[0])
		return env.project(x, e.Name)
	case "bin":
		return env.bin(e)
	case "quant":
		return env.quant(e)
	case "call":
		return env.call(e)
	}
	sfail("cannot translate %s", e)
	return specVal{}
}

func (env *specEnv) ident(n string) specVal {
	if v, ok := env.lookupBound(n); ok {
		return v
	}
	if b, ok := env.names[n]; ok {
		if b.Deref {
			return env.deref(b.V, &Expr{Op: "ident", Name: n})
		}
		return b.V
	}
	if le, ok := env.lets[n]; ok {
		if env.letDepth > 8 {
			sfail("let recursion")
		}
		c := env.child()
		c.letDepth++
		return c.tr(le)
	}
	// package-level object
	if obj := env.pkg.Scope().Lookup(n); obj != nil {
		return env.object(obj)
	}
	if obj := types.Universe.Lookup(n); obj != nil {
		if c, ok := obj.(*types.Const); ok {
			return env.constVal(c)
		}
	}
	sfail("unknown identifier %q", n)
	return specVal{}
}

func (env *specEnv) constVal(c *types.Const) specVal {
	vc := env.vc
	switch c.Val().Kind() {
	case constant.Int:
		return specVal{T: intLit(c.Val().ExactString()), Typ: c.Type(), Sort: "Int"}
	case constant.Bool:
		return ghost(fmt.Sprint(constant.BoolVal(c.Val())), "Bool")
	case constant.String:
		return specVal{T: vc.strlit(constant.StringVal(c.Val())), Typ: c.Type(), Sort: "Str"}
	}
	sfail("constant %s of unsupported kind", c.Name())
	return specVal{}
}

func (env *specEnv) object(obj types.Object) specVal {
	vc := env.vc
	switch o := obj.(type) {
	case *types.Const:
		return env.constVal(o)
	case *types.Var:
		// package-level variable
		for _, sp := range vc.P.SPkgs {
			if sp.Pkg == o.Pkg() {
				if g, ok := sp.Members[o.Name()].(*ssa.Global); ok {
					a := vc.globalAddr(g)
					var t string
					if a.Const != "" {
						t = a.Const
					} else {
						t = sel(env.heap(a.Comp), a.Ref)
					}
					return vc.sv(t, o.Type())
				}
			}
		}
	}
	sfail("cannot use %s here", obj.Name())
	return specVal{}
}

func (env *specEnv) deref(x specVal, e *Expr) specVal {
	vc := env.vc
	if x.Typ == nil {
		sfail("deref of ghost value %s", e)
	}
	pt, ok := x.Typ.Underlying().(*types.Pointer)
	if !ok {
		sfail("deref of non-pointer %s", e)
	}
	comp := vc.S.cellComp(pt.Elem())
	return vc.sv(sel(env.heap(comp), x.T), pt.Elem())
}

func (env *specEnv) sel(x specVal, name string, e *Expr) specVal {
	vc := env.vc
	// package-qualified identifier: pkgname.Name
	if x.Typ == nil && x.Sort == "Pkg!" {
		return specVal{}
	}
	if x.Typ == nil {
		sfail("field %s of ghost value in %s", name, e)
	}
	t := x.Typ
	if pt, ok := t.Underlying().(*types.Pointer); ok {
		x = env.deref(x, e)
		t = pt.Elem()
	}
	st, ok := t.Underlying().(*types.Struct)
	if !ok {
		sfail("field %s of non-struct %s in %s", name, t, e)
	}
	info := vc.S.structInfoOf(t)
	if info == nil {
		sfail("field %s of opaque struct %s", name, t)
	}
	for i := 0; i < st.NumFields(); i++ {
		if st.Field(i).Name() == name {
			return vc.sv("("+info.Fields[i]+" "+x.T+")", st.Field(i).Type())
		}
	}
	// promoted field through embedded struct
	for i := 0; i < st.NumFields(); i++ {
		if st.Field(i).Embedded() {
			inner := vc.sv("("+info.Fields[i]+" "+x.T+")", st.Field(i).Type())
			if ist, ok := deref(inner.Typ).Underlying().(*types.Struct); ok {
				for j := 0; j < ist.NumFields(); j++ {
					if ist.Field(j).Name() == name {
						return env.sel(inner, name, e)
					}
				}
			}
		}
	}
	sfail("no field %s in %s", name, t)
	return specVal{}
}

func deref(t types.Type) types.Type {
	if p, ok := t.Underlying().(*types.Pointer); ok {
		return p.Elem()
	}
	return t
}

func (env *specEnv) index(x, i specVal, e *Expr) specVal {
	vc := env.vc
	if x.Typ == nil {
		if strings.HasPrefix(x.Sort, "(Array ") {
			return ghost(sel(x.T, i.T), arrayRange(x.Sort))
		}
		sfail("index of ghost value %s", e)
	}
	t := x.Typ
	if pt, ok := t.Underlying().(*types.Pointer); ok {
		if _, isArr := pt.Elem().Underlying().(*types.Array); isArr {
			x = env.deref(x, e)
			t = pt.Elem()
		}
	}
	switch u := t.Underlying().(type) {
	case *types.Slice:
		comp := vc.S.arrComp(t)
		return vc.sv(sel(sel(env.heap(comp), "(s_arr "+x.T+")"), "(ix (s_off "+x.T+") "+i.T+")"), u.Elem())
	case *types.Array:
		return vc.sv(sel(x.T, i.T), u.Elem())
	case *types.Map:
		// Go semantics: reading an absent key (or a nil map) yields the zero value
		vcomp, dcomp := vc.S.mapComps(u)
		present := and(not(eq(x.T, "0")), sel(sel(env.heap(dcomp), x.T), i.T))
		return vc.sv(ite(present, sel(sel(env.heap(vcomp), x.T), i.T), vc.zero(u.Elem())), u.Elem())
	case *types.Basic:
		if isString(t) {
			return ghost("(str_at "+x.T+" "+i.T+")", "Int")
		}
	}
	sfail("cannot index %s", e)
	return specVal{}
}

func arrayRange(sort string) string {
	// "(Array K V)" -> V
	inner := strings.TrimSuffix(strings.TrimPrefix(sort, "(Array "), ")")
	depth := 0
	for i, c := range inner {
		switch c {
		case '(':
			depth++
		case ')':
			depth--
		case ' ':
			if depth == 0 {
				return inner[i+1:]
			}
		}
	}
	return inner
}

// findPackage finds a package of the module (or one it imports) by name.
func (env *specEnv) findPackage(name string) *types.Package {
	var found *types.Package
	seen := map[*types.Package]bool{}
	var visit func(p *types.Package)
	visit = func(p *types.Package) {
		if seen[p] || found != nil {
			return
		}
		seen[p] = true
		if p.Name() == name || shortPkg(p.Path()) == name {
			found = p
			return
		}
		for _, q := range p.Imports() {
			visit(q)
		}
	}
	for p := range env.vc.P.Module {
		visit(p)
	}
	return found
}

// resolveType resolves a type name as written in a contract.
func (env *specEnv) resolveType(name string) types.Type {
	vc := env.vc
	if strings.HasPrefix(name, "*") {
		return types.NewPointer(env.resolveType(name[1:]))
	}
	if strings.HasPrefix(name, "[]") {
		return types.NewSlice(env.resolveType(name[2:]))
	}
	if strings.HasPrefix(name, "map[") {
		depth := 0
		for i := 3; i < len(name); i++ {
			switch name[i] {
			case '[':
				depth++
			case ']':
				depth--
				if depth == 0 {
					return types.NewMap(env.resolveType(name[4:i]), env.resolveType(name[i+1:]))
				}
			}
		}
	}
	if i := strings.LastIndex(name, "."); i >= 0 {
		pn, tn := name[:i], name[i+1:]
		var found types.Type
		seen := map[*types.Package]bool{}
		var visit func(p *types.Package)
		visit = func(p *types.Package) {
			if seen[p] || found != nil {
				return
			}
			seen[p] = true
			if p.Name() == pn || p.Path() == pn || shortPkg(p.Path()) == pn {
				if o, ok := p.Scope().Lookup(tn).(*types.TypeName); ok {
					found = o.Type()
					return
				}
			}
			for _, q := range p.Imports() {
				visit(q)
			}
		}
		for p := range vc.P.Module {
			visit(p)
		}
		if found == nil {
			sfail("unknown type %s", name)
		}
		return found
	}
	if o, ok := env.pkg.Scope().Lookup(name).(*types.TypeName); ok {
		return o.Type()
	}
	if o, ok := types.Universe.Lookup(name).(*types.TypeName); ok {
		return o.Type()
	}
	sfail("unknown type %s", name)
	return nil
}

func (env *specEnv) isType(x specVal, tyName string) string {
	vc := env.vc
	if x.Typ == nil {
		sfail("'is' on ghost value")
	}
	T := env.resolveType(tyName)
	if n, ok := vc.P.closedInterface(x.Typ); ok {
		info := vc.S.ifaceInfoOf(n)
		i := info.implIndex(T)
		if i < 0 {
			return "false"
		}
		return "((_ is " + info.Ctors[i] + ") " + x.T + ")"
	}
	if _, ok := x.Typ.Underlying().(*types.Interface); ok {
		vc.unboxDecl(T)
		return fmt.Sprintf("(and (not (= %s 0)) (= (dyntag %s) %d))", x.T, x.T, vc.dynTagId(T))
	}
	sfail("'is' on non-interface value of type %s", x.Typ)
	return ""
}

func (env *specEnv) project(x specVal, tyName string) specVal {
	vc := env.vc
	T := env.resolveType(tyName)
	if x.Typ == nil {
		sfail("type assertion on ghost value")
	}
	if n, ok := vc.P.closedInterface(x.Typ); ok {
		info := vc.S.ifaceInfoOf(n)
		i := info.implIndex(T)
		if i < 0 {
			sfail("%s does not implement %s", T, x.Typ)
		}
		return vc.sv("("+info.Projs[i]+" "+x.T+")", T)
	}
	if _, ok := x.Typ.Underlying().(*types.Interface); ok {
		un := vc.unboxDecl(T)
		return vc.sv("("+un+" "+x.T+")", T)
	}
	sfail("type assertion on non-interface")
	return specVal{}
}

// unify makes two operands comparable: nil literal typed by the other side;
// concrete values boxed when compared with an interface value.
func (env *specEnv) unify(a, b specVal) (specVal, specVal) {
	vc := env.vc
	if a.Nil && !b.Nil {
		return env.nilOf(b), b
	}
	if b.Nil && !a.Nil {
		return a, env.nilOf(a)
	}
	if a.Typ != nil && b.Typ != nil && a.Sort != b.Sort {
		if _, ok := a.Typ.Underlying().(*types.Interface); ok {
			return a, vc.sv(env.box(b, a.Typ), a.Typ)
		}
		if _, ok := b.Typ.Underlying().(*types.Interface); ok {
			return vc.sv(env.box(a, b.Typ), b.Typ), b
		}
	}
	return a, b
}

func (env *specEnv) box(x specVal, iface types.Type) string {
	vc := env.vc
	if n, ok := vc.P.closedInterface(iface); ok {
		info := vc.S.ifaceInfoOf(n)
		i := info.implIndex(x.Typ)
		if i < 0 {
			sfail("%s does not implement %s", x.Typ, iface)
		}
		return "(" + info.Ctors[i] + " " + x.T + ")"
	}
	return vc.box(x.Typ, x.T)
}

func (env *specEnv) nilOf(other specVal) specVal {
	vc := env.vc
	if other.Typ == nil {
		return specVal{T: "0", Sort: "Int"}
	}
	return specVal{T: vc.zero(other.Typ), Typ: other.Typ, Sort: other.Sort}
}

func (env *specEnv) bin(e *Expr) specVal {
	op := e.Name
	switch op {
	case "&&", "||", "==>", "<==>":
		a, b := env.tr(e.Args[0]), env.tr(e.Args[1])
		if a.Sort != "Bool" || b.Sort != "Bool" {
			sfail("boolean operator %s on non-bool in %s", op, e)
		}
		switch op {
		case "&&":
			return ghost(and(a.T, b.T), "Bool")
		case "||":
			return ghost(or(a.T, b.T), "Bool")
		case "==>":
			return ghost(implies(a.T, b.T), "Bool")
		default:
			return ghost("(= "+a.T+" "+b.T+")", "Bool")
		}
	case "==", "!=":
		a, b := env.tr(e.Args[0]), env.tr(e.Args[1])
		a, b = env.unify(a, b)
		var t string
		if a.Nil && b.Nil {
			t = "true"
		} else if a.Sort == "Slice" && (e.Args[0].Op == "nil" || e.Args[1].Op == "nil") {
			x := a
			if e.Args[0].Op == "nil" {
				x = b
			}
			t = eq("(s_arr "+x.T+")", "0")
		} else {
			if a.Sort != b.Sort {
				sfail("comparing %s (%s) with %s (%s)", e.Args[0], a.Sort, e.Args[1], b.Sort)
			}
			t = eq(a.T, b.T)
		}
		if op == "!=" {
			t = not(t)
		}
		return ghost(t, "Bool")
	case "<", "<=", ">", ">=":
		a, b := env.tr(e.Args[0]), env.tr(e.Args[1])
		if a.Sort != "Int" || b.Sort != "Int" {
			sfail("ordering on non-integers in %s", e)
		}
		return ghost("("+op+" "+a.T+" "+b.T+")", "Bool")
	case "+", "-", "*", "/", "%":
		a, b := env.tr(e.Args[0]), env.tr(e.Args[1])
		if a.Sort == "Str" && op == "+" {
			return specVal{T: "(strcat " + a.T + " " + b.T + ")", Typ: a.Typ, Sort: "Str"}
		}
		if a.Sort != "Int" || b.Sort != "Int" {
			sfail("arithmetic on non-integers in %s", e)
		}
		smt := map[string]string{"+": "+", "-": "-", "*": "*", "/": "tdiv", "%": "tmod"}[op]
		return ghost("("+smt+" "+a.T+" "+b.T+")", "Int")
	}
	sfail("operator %s", op)
	return specVal{}
}

func (env *specEnv) quantSort(ty string) specVal {
	switch ty {
	case "int", "Int":
		return ghost("", "Int")
	case "Bytes", "Str", "Bool", "Opaque":
		return ghost("", ty)
	case "ref":
		return ghost("", "Int")
	}
	if strings.HasPrefix(ty, "(") {
		return ghost("", ty)
	}
	T := env.resolveType(ty)
	return specVal{Typ: T, Sort: env.vc.S.sortOf(T)}
}

func (env *specEnv) quant(e *Expr) specVal {
	c := env.child()
	m := map[string]specVal{}
	var decl []string
	var guards []string
	for i, v := range e.Vars {
		qs := env.quantSort(e.VTys[i])
		env.vc.ctr++
		n := fmt.Sprintf("q_%s!%d", sanitize(v), env.vc.ctr)
		qs.T = n
		m[v] = qs
		decl = append(decl, "("+n+" "+qs.Sort+")")
		if qs.Typ != nil {
			if g := env.vc.typeInv(n, qs.Typ, ""); g != "true" {
				guards = append(guards, g)
			}
		}
	}
	c.bound = append(append([]map[string]specVal{}, env.bound...), m)
	body := c.tr(e.Args[0])
	if body.Sort != "Bool" {
		sfail("quantifier body not boolean")
	}
	bt := body.T
	if len(guards) > 0 {
		if e.Name == "forall" {
			bt = implies(and(guards...), bt)
		} else {
			bt = and(append(guards, bt)...)
		}
	}
	if len(e.Trig) > 0 {
		var ps []string
		for _, t := range e.Trig {
			ps = append(ps, c.tr(t).T)
		}
		bt = "(! " + bt + " :pattern (" + strings.Join(ps, " ") + "))"
	}
	return ghost("("+e.Name+" ("+strings.Join(decl, " ")+") "+bt+")", "Bool")
}

func (env *specEnv) call(e *Expr) specVal {
	vc := env.vc
	fnE := e.Args[0]
	args := e.Args[1:]
	name := ""
	switch fnE.Op {
	case "ident":
		name = fnE.Name
	case "sel":
		if fnE.Args[0].Op == "ident" {
			name = fnE.Args[0].Name + "." + fnE.Name
		}
	}
	if name == "" {
		sfail("cannot call %s", fnE)
	}
	if _, shadow := env.lookupBound(name); !shadow {
		switch name {
		case "len", "cap":
			x := env.tr(args[0])
			switch {
			case x.Sort == "Slice":
				return ghost("(s_"+name+" "+x.T+")", "Int")
			case x.Sort == "Str":
				return ghost("(strlen "+x.T+")", "Int")
			case x.Sort == "Bytes":
				return ghost("(blen "+x.T+")", "Int")
			}
			if x.Typ != nil {
				if a, ok := x.Typ.Underlying().(*types.Array); ok {
					return ghost(fmt.Sprint(a.Len()), "Int")
				}
				if pt, ok := x.Typ.Underlying().(*types.Pointer); ok {
					if a, ok := pt.Elem().Underlying().(*types.Array); ok {
						return ghost(fmt.Sprint(a.Len()), "Int")
					}
				}
			}
			sfail("len of %s", args[0])
		case "fresh":
			x := env.tr(args[0])
			t := x.T
			if x.Sort == "Slice" {
				t = "(s_arr " + x.T + ")"
			}
			return ghost("(>= "+t+" "+env.allocPre+")", "Bool")
		case "allocated":
			x := env.tr(args[0])
			t := x.T
			if x.Sort == "Slice" {
				t = "(s_arr " + x.T + ")"
			}
			return ghost("(< "+t+" "+env.cur.alloc+")", "Bool")
		case "arr":
			x := env.tr(args[0])
			return ghost("(s_arr "+x.T+")", "Int")
		case "off":
			x := env.tr(args[0])
			return ghost("(s_off "+x.T+")", "Int")
		case "bview":
			x := env.tr(args[0])
			if x.Sort != "Slice" {
				sfail("bview of non-slice")
			}
			if x.Typ == nil || !isByteSlice(x.Typ) {
				sfail("bview of a value that is not a byte slice")
			}
			comp := vc.S.arrComp(x.Typ)
			return ghost(fmt.Sprintf("(bview (select %s (s_arr %s)) (s_off %s) (s_len %s))", env.heap(comp), x.T, x.T, x.T), "Bytes")
		case "has":
			m, k := env.tr(args[0]), env.tr(args[1])
			mt, ok := m.Typ.Underlying().(*types.Map)
			if !ok {
				sfail("has() on non-map")
			}
			_, dcomp := vc.S.mapComps(mt)
			return ghost(and(not(eq(m.T, "0")), sel(sel(env.heap(dcomp), m.T), k.T)), "Bool")
		case "dom":
			// raw domain read of a map (no nil-map test): meant for triggers
			m, k := env.tr(args[0]), env.tr(args[1])
			mt, ok := m.Typ.Underlying().(*types.Map)
			if !ok {
				sfail("dom() on non-map")
			}
			_, dcomp := vc.S.mapComps(mt)
			return ghost(sel(sel(env.heap(dcomp), m.T), k.T), "Bool")
		case "wrap64":
			x := env.tr(args[0])
			return ghost(wrapInt(types.Typ[types.Int64], x.T), "Int")
		case "in64":
			x := env.tr(args[0])
			return ghost("(and (<= (- 9223372036854775808) "+x.T+") (<= "+x.T+" 9223372036854775807))", "Bool")
		case "sentFinal", "sentCount":
			// ghost state of a channel producer (by channel name)
			if len(args) != 1 || args[0].Op != "ident" {
				sfail("%s(<channel name>)", name)
			}
			if name == "sentFinal" {
				return ghost(vc.heapOf(env.cur, vc.ghostBool("ChanFinal_"+args[0].Name)), "Bool")
			}
			return ghost(vc.heapOf(env.cur, vc.ghostInt("ChanCount_"+args[0].Name)), "Int")
		case "ix":
			a, b := env.tr(args[0]), env.tr(args[1])
			return ghost("(ix "+a.T+" "+b.T+")", "Int")
		case "pre":
			// pre(e): value of e when the enclosing loop (with a modifies clause) was entered
			if env.loopPre == nil {
				sfail("pre() outside a loop that has a modifies clause")
			}
			c := env.child()
			c.cur = env.loopPre
			if len(env.loopEntryNames) > 0 {
				c.names = map[string]*specBinding{}
				for k, b := range env.names {
					c.names[k] = b
				}
				for k, b := range env.loopEntryNames {
					c.names[k] = b
				}
			}
			return c.tr(args[0])
		case "freshInLoop":
			if env.loopBound == "" {
				sfail("freshInLoop() outside a loop that has a modifies clause")
			}
			x := env.tr(args[0])
			t := x.T
			if x.Sort == "Slice" {
				t = "(s_arr " + x.T + ")"
			}
			return ghost("(>= "+t+" "+env.loopBound+")", "Bool")
		case "dyntagOf":
			// the dynamic-type tag of an open-interface value
			x := env.tr(args[0])
			vc.declareDynTag()
			return ghost("(dyntag "+x.T+")", "Int")
		case "seen":
			// seen(k): key k has already been yielded by the enclosing map range loop
			b, ok := env.names["#seen"]
			if !ok {
				sfail("seen() outside a map range loop")
			}
			comp := vc.S.comps[b.V.T]
			k := env.tr(args[0])
			return ghost(sel(env.heap(comp), k.T), "Bool")
		case "now":
			// inside old(...): evaluate the argument in the current (post) state
			c := env.child()
			if env.post != nil {
				c.cur = env.post
				c.post = nil
			}
			return c.tr(args[0])
		case "inner":
			// the backing array of a slice in the current heap, as a ghost value
			x := env.tr(args[0])
			if x.Sort != "Slice" || x.Typ == nil {
				sfail("inner of non-slice")
			}
			comp := vc.S.arrComp(x.Typ)
			return ghost(sel(env.heap(comp), "(s_arr "+x.T+")"), "(Array Int "+comp.VSort+")")
		case "bytes_of_str":
			x := env.tr(args[0])
			if x.Sort != "Str" {
				sfail("bytes_of_str of non-string")
			}
			return ghost("(bytes_of_str "+x.T+")", "Bytes")
		case "str_of_bytes":
			x := env.tr(args[0])
			if x.Sort != "Bytes" {
				sfail("str_of_bytes of non-Bytes")
			}
			return specVal{T: "(str_of_bytes " + x.T + ")", Typ: types.Typ[types.String], Sort: "Str"}
		case "bcat":
			a, b := env.tr(args[0]), env.tr(args[1])
			if a.Sort != "Bytes" || b.Sort != "Bytes" {
				sfail("bcat of non-Bytes")
			}
			return ghost("(bcat "+a.T+" "+b.T+")", "Bytes")
		case "isNil":
			x := env.tr(args[0])
			return ghost(eq(x.T, env.nilOf(x).T), "Bool")
		}
	}
	// ghost / pure functions
	if g, ok := vc.SS.Ghosts[name]; ok {
		if len(args) != len(g.Params) {
			sfail("%s: expected %d arguments", name, len(g.Params))
		}
		vc.useGhost(g)
		var ts []string
		var xs []specVal
		for i, a := range args {
			x := env.tr(a)
			// parameter types are written in the vocabulary's own package
			genv := env.child()
			genv.pkg = vc.pkgByShort(g.Pkg)
			want := genv.quantSort(g.PSorts[i])
			if x.Nil {
				x = env.nilOf(want)
			}
			if x.Sort != want.Sort {
				// allow boxing into an interface parameter
				if want.Typ != nil && x.Typ != nil {
					if _, isI := want.Typ.Underlying().(*types.Interface); isI {
						x = vc.sv(env.box(x, want.Typ), want.Typ)
					}
				}
			}
			if x.Sort != want.Sort {
				sfail("%s: argument %d has sort %s, want %s", name, i, x.Sort, want.Sort)
			}
			ts = append(ts, x.T)
			xs = append(xs, x)
		}
		if g.Body != nil {
			return env.expandPure(g, xs)
		}
		renv := env.child()
		renv.pkg = vc.pkgByShort(g.Pkg)
		rs := renv.quantSort(g.RSort)
		t := g.smtName()
		if len(ts) > 0 {
			t = "(" + g.smtName() + " " + strings.Join(ts, " ") + ")"
		}
		return specVal{T: t, Typ: rs.Typ, Sort: rs.Sort}
	}
	// conversion T(x)
	if len(args) == 1 {
		var T types.Type
		func() {
			defer func() {
				if r := recover(); r != nil {
					if _, ok := r.(specErr); !ok {
						panic(r)
					}
				}
			}()
			T = env.resolveType(name)
		}()
		if T != nil {
			x := env.tr(args[0])
			if _, isI := T.Underlying().(*types.Interface); isI {
				if x.Nil {
					return env.nilOf(specVal{Typ: T})
				}
				if x.Typ == nil {
					sfail("cannot box ghost value into %s", name)
				}
				return vc.sv(env.box(x, T), T)
			}
			so := vc.S.sortOf(T)
			if x.Sort != so {
				sfail("conversion %s(%s): sort %s vs %s", name, args[0], so, x.Sort)
			}
			return specVal{T: x.T, Typ: T, Sort: so}
		}
	}
	sfail("unknown function %s", name)
	return specVal{}
}

func (g *GhostFunc) smtName() string { return "gf_" + sanitize(g.Name) }

// useGhost registers a ghost function as used by this VC.
func (vc *VC) useGhost(g *GhostFunc) {
	vc.ghostUsed[g.Name] = true
}
