#!/bin/bash
# try-seeded.sh <patch.diff> <property-id>...   apply a seeded change to /repo, run the
# named checks, and undo it. Refuses to run when /repo has uncommitted changes.
set -u
patch="$1"; shift
if [ -n "$(git -C /repo status --porcelain)" ]; then echo "refusing: /repo working tree is not clean (commit first)"; exit 2; fi
git -C /repo apply "$patch" || { echo "patch does not apply"; exit 2; }
# evidence files describe the unchanged tree: keep them as they were (a run on a patched
# tree would otherwise leave a record with undischarged obligations behind)
save=$(mktemp -d /var/tmp/evidence-save.XXXXXX); cp -a /verif/evidence/. "$save"/
trap 'git -C /repo checkout -- . ; git -C /repo clean -fdq; cp -a "$save"/. /verif/evidence/; rm -rf "$save"' EXIT
(cd /repo && GOFLAGS=-mod=mod GOPROXY=off GOSUMDB=off GOTOOLCHAIN=local go build ./... ) || { echo "does not compile"; exit 2; }
for id in "$@"; do
  out=$(/verif/bin/check $id quick 2>&1); code=$?
  echo "== $id exit=$code $(echo "$out" | tail -1)"
  echo "$out" | grep '^VIOLATION' | head -6 | cut -c1-260
done
