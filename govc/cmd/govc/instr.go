package main

import (
	"fmt"
	"go/token"
	"go/types"
	"strings"

	"golang.org/x/tools/go/ssa"
)

func (f *Frame) safe(kind string, in ssa.Instruction, at, goal string) {
	vc := f.vc
	if goal == "true" {
		return
	}
	label := vc.P.srcText(in.Pos())
	if label == "" {
		label = "_"
	}
	if f.depth > 0 {
		label = canonShort(f.fn) + ":" + label
	}
	props := append([]string{}, f.vc.con.Serves...)
	vc.oblige("safe/"+kind, label, at, goal, vc.P.line(in.Pos()), vc.P.srcText(in.Pos()), props)
	// after the check, execution continues only if it held
	vc.assume(at, goal, "after safe/"+kind)
}

func canonShort(fn *ssa.Function) string {
	n := canonName(fn)
	if i := strings.Index(n, "."); i >= 0 {
		return n[i+1:]
	}
	return n
}

func (f *Frame) exec(in ssa.Instruction, at string, st *State) {
	vc := f.vc
	switch x := in.(type) {
	case *ssa.DebugRef:
		return
	case *ssa.Phi:
		return // handled at block entry
	case *ssa.Alloc:
		pt := x.Type().Underlying().(*types.Pointer)
		r := vc.define(f.nm(x.Name()), "Int", st.alloc)
		st.alloc = vc.define(f.nm("alloc"), "Int", "(+ "+st.alloc+" 1)")
		var comp *Component
		if _, isArr := pt.Elem().Underlying().(*types.Array); isArr {
			comp = vc.S.arrComp(vc.P.allocArrayType(x))
		} else {
			comp = vc.S.cellComp(pt.Elem())
		}
		h := vc.heapOf(st, comp)
		st.heap[comp.Name] = vc.define(comp.Name, comp.Sort, sto(h, r, vc.zero(pt.Elem())))
		f.env[x] = &Val{T: r}
	case *ssa.UnOp:
		f.env[x] = f.unop(x, at, st)
	case *ssa.BinOp:
		f.env[x] = &Val{T: vc.define(f.nm(x.Name()), vc.S.sortOf(x.Type()), f.binop(x, at))}
	case *ssa.ChangeType:
		v := f.val(x.X)
		f.env[x] = &Val{T: v.T, Fn: v.Fn, FV: v.FV}
	case *ssa.Convert:
		f.env[x] = &Val{T: f.convert(x, at, st)}
	case *ssa.ChangeInterface:
		f.env[x] = &Val{T: f.changeInterface(x.X.Type(), x.Type(), f.term(x.X))}
	case *ssa.MakeInterface:
		f.env[x] = &Val{T: vc.define(f.nm(x.Name()), vc.S.sortOf(x.Type()), f.makeInterface(x.X.Type(), x.Type(), f.term(x.X)))}
	case *ssa.TypeAssert:
		f.env[x] = f.typeAssert(x, at)
	case *ssa.Extract:
		tv := f.val(x.Tuple)
		if tv.Tup == nil || x.Index >= len(tv.Tup) {
			panic(unsupported{"extract from non-tuple"})
		}
		f.env[x] = tv.Tup[x.Index]
	case *ssa.Field:
		sv := f.term(x.X)
		info := vc.S.structInfoOf(x.X.Type())
		if info == nil {
			panic(unsupported{"field of opaque struct value"})
		}
		t := vc.define(f.nm(x.Name()), vc.S.sortOf(x.Type()), "("+info.Fields[x.Field]+" "+sv+")")
		vc.assume(at, vc.typeInv(t, x.Type(), st.alloc), "type invariant")
		f.env[x] = &Val{T: t}
	case *ssa.FieldAddr:
		base := f.val(x.X)
		pt := x.X.Type().Underlying().(*types.Pointer)
		var a *Addr
		if base.A != nil {
			a = &Addr{Comp: base.A.Comp, Ref: base.A.Ref, Idx: base.A.Idx, Const: base.A.Const, Path: append(append([]pathEl{}, base.A.Path...), pathEl{pt.Elem(), x.Field})}
		} else {
			f.safe("nil", x, at, not(eq(base.T, "0")))
			a = &Addr{Comp: vc.S.cellComp(pt.Elem()), Ref: base.T, Path: []pathEl{{pt.Elem(), x.Field}}}
		}
		if vc.S.structInfoOf(pt.Elem()) == nil {
			panic(unsupported{"field address in opaque struct " + pt.Elem().String()})
		}
		a.Typ = x.Type().Underlying().(*types.Pointer).Elem()
		f.env[x] = &Val{A: a}
	case *ssa.IndexAddr:
		f.env[x] = f.indexAddr(x, at, st)
	case *ssa.Index:
		f.env[x] = f.index(x, at, st)
	case *ssa.Slice:
		f.env[x] = f.sliceOp(x, at, st)
	case *ssa.MakeSlice:
		f.env[x] = f.makeSlice(x, at, st)
	case *ssa.MakeMap:
		m := x.Type().Underlying().(*types.Map)
		vcomp, dcomp := vc.S.mapComps(m)
		r := vc.define(f.nm(x.Name()), "Int", st.alloc)
		st.alloc = vc.define(f.nm("alloc"), "Int", "(+ "+st.alloc+" 1)")
		hd := vc.heapOf(st, dcomp)
		ks := vc.S.sortOf(m.Key())
		st.heap[dcomp.Name] = vc.define(dcomp.Name, dcomp.Sort, sto(hd, r, "((as const (Array "+ks+" Bool)) false)"))
		hv := vc.heapOf(st, vcomp)
		st.heap[vcomp.Name] = vc.define(vcomp.Name, vcomp.Sort, sto(hv, r, "((as const (Array "+ks+" "+vc.S.sortOf(m.Elem())+")) "+vc.zero(m.Elem())+")"))
		f.env[x] = &Val{T: r}
	case *ssa.MapUpdate:
		f.mapUpdate(x, at, st)
	case *ssa.Lookup:
		f.env[x] = f.lookup(x, at, st)
	case *ssa.MakeClosure:
		fn := x.Fn.(*ssa.Function)
		var fvs []*Val
		for _, b := range x.Bindings {
			fvs = append(fvs, f.val(b))
		}
		id := vc.declare(f.nm(x.Name()), "Int")
		vc.assume(at, not(eq(id, "0")), "closure non-nil")
		f.env[x] = &Val{T: id, Fn: fn, FV: fvs}
	case *ssa.Call:
		r := f.call(x, at, st)
		f.env[x] = r
	case *ssa.Store:
		a := f.addrOf(x.Addr)
		if a.Const == "" && len(a.Path) == 0 && f.val(x.Addr).A == nil {
			f.safe("nil", x, at, not(eq(a.Ref, "0")))
		}
		f.checkFrameStore(x, a, at, st)
		f.storeAddr(a, f.term(x.Val), st)
	case *ssa.If:
		c := f.term(x.Cond)
		b := x.Block()
		f.setEdge(b, 0, and(at, c), st)
		f.setEdge(b, 1, and(at, not(c)), st)
	case *ssa.Jump:
		f.setEdge(x.Block(), 0, at, st)
	case *ssa.Return:
		var vals []*Val
		for _, r := range x.Results {
			vals = append(vals, f.val(r))
		}
		f.rets = append(f.rets, retInfo{cond: at, vals: vals, st: st.clone()})
		if f.top {
			f.atReturn(x, at, vals, st)
			f.chanAtReturn(x, at, st)
		}
	case *ssa.Panic:
		f.atPanic(x, at, st)
	case *ssa.RunDefers:
		f.runDefers(x, at, st)
	case *ssa.Defer:
		f.deferCall(x, at, st)
	case *ssa.MakeChan:
		f.env[x] = f.makeChan(x, at, st)
	case *ssa.Go:
		f.goStmt(x, at, st)
	case *ssa.Select:
		f.env[x] = f.selectStmt(x, at, st)
	case *ssa.Send:
		f.sendStmt(x, at, st)
	case *ssa.Range:
		f.env[x] = f.rangeInit(x, at, st)
	case *ssa.Next:
		f.env[x] = f.rangeNext(x, at, st)
	default:
		panic(unsupported{fmt.Sprintf("instruction %T", in)})
	}
}

func (f *Frame) setEdge(from *ssa.BasicBlock, k int, cond string, st *State) {
	to := from.Succs[k]
	key := [2]int{from.Index, to.Index}
	if f.backEdge[key] {
		f.checkLoopBack(f.loops[to], from, cond, st)
		return
	}
	if old, ok := f.edge[key]; ok {
		cond = or(old, cond)
	}
	f.edge[key] = f.vc.define(f.nm(fmt.Sprintf("e%d_%d", from.Index, to.Index)), "Bool", cond)
}

func (f *Frame) unop(x *ssa.UnOp, at string, st *State) *Val {
	vc := f.vc
	switch x.Op {
	case token.MUL: // load
		a := f.addrOf(x.X)
		if a.Const == "" && len(a.Path) == 0 && f.val(x.X).A == nil {
			f.safe("nil", x, at, not(eq(a.Ref, "0")))
		}
		if _, isTuple := x.Type().(*types.Tuple); isTuple {
			panic(unsupported{"tuple load"})
		}
		t := vc.define(f.nm(x.Name()), vc.S.sortOf(x.Type()), f.loadAddr(a, st))
		vc.assume(at, vc.typeInv(t, x.Type(), st.alloc), "type invariant")
		v := &Val{T: t}
		return v
	case token.NOT:
		return &Val{T: not(f.term(x.X))}
	case token.SUB:
		return &Val{T: vc.define(f.nm(x.Name()), "Int", wrapInt(x.Type(), "(- "+f.term(x.X)+")"))}
	case token.ARROW:
		return f.recv(x, at, st)
	}
	panic(unsupported{"unary operator " + x.Op.String()})
}

func isString(t types.Type) bool {
	b, ok := t.Underlying().(*types.Basic)
	return ok && b.Info()&types.IsString != 0
}

func isInteger(t types.Type) bool {
	b, ok := t.Underlying().(*types.Basic)
	return ok && b.Info()&types.IsInteger != 0
}

func (f *Frame) binop(x *ssa.BinOp, at string) string {
	vc := f.vc
	a, b := f.term(x.X), f.term(x.Y)
	t := x.X.Type()
	switch x.Op {
	case token.ADD:
		if isString(t) {
			r := vc.define(f.nm("cat"), "Str", "(strcat "+a+" "+b+")")
			vc.assume("true", eq("(strlen "+r+")", "(+ (strlen "+a+") (strlen "+b+"))"), "strcat length")
			return r
		}
		return wrapInt(x.Type(), "(+ "+a+" "+b+")")
	case token.SUB:
		return wrapInt(x.Type(), "(- "+a+" "+b+")")
	case token.MUL:
		return wrapInt(x.Type(), "(* "+a+" "+b+")")
	case token.QUO:
		if !isInteger(t) {
			panic(unsupported{"non-integer division"})
		}
		f.safe("div", x, at, not(eq(b, "0")))
		return wrapInt(x.Type(), "(tdiv "+a+" "+b+")")
	case token.REM:
		f.safe("div", x, at, not(eq(b, "0")))
		return "(tmod " + a + " " + b + ")"
	case token.EQL, token.NEQ:
		var e string
		switch t.Underlying().(type) {
		case *types.Slice:
			// only comparison with nil is legal
			if isNilConst(x.Y) {
				e = eq("(s_arr "+a+")", "0")
			} else {
				e = eq("(s_arr "+b+")", "0")
			}
		case *types.Interface:
			f.ifaceCmpSafe(x, t, a, b, at)
			e = eq(a, b)
		default:
			e = eq(a, b)
		}
		if x.Op == token.NEQ {
			return not(e)
		}
		return e
	case token.LSS, token.LEQ, token.GTR, token.GEQ:
		if isString(t) {
			switch x.Op {
			case token.LSS:
				return "(str_lt " + a + " " + b + ")"
			case token.GTR:
				return "(str_lt " + b + " " + a + ")"
			case token.LEQ:
				return not("(str_lt " + b + " " + a + ")")
			default:
				return not("(str_lt " + a + " " + b + ")")
			}
		}
		op := map[token.Token]string{token.LSS: "<", token.LEQ: "<=", token.GTR: ">", token.GEQ: ">="}[x.Op]
		return "(" + op + " " + a + " " + b + ")"
	case token.AND, token.OR, token.XOR, token.SHL, token.SHR, token.AND_NOT:
		if bt, ok := t.Underlying().(*types.Basic); ok && bt.Info()&types.IsBoolean != 0 {
			panic(unsupported{"bool bit op"})
		}
		r := vc.define(f.nm("bit"), "Int", fmt.Sprintf("(bitop %d %s %s)", int(x.Op), a, b))
		vc.assume("true", vc.typeInv(r, x.Type(), ""), "bit operator result range (uninterpreted)")
		return r
	}
	panic(unsupported{"binary operator " + x.Op.String()})
}

func isNilConst(v ssa.Value) bool {
	c, ok := v.(*ssa.Const)
	return ok && c.Value == nil
}

// ifaceCmpSafe: comparing two interface values panics when both hold the same
// non-comparable dynamic type (slices here).
func (f *Frame) ifaceCmpSafe(x *ssa.BinOp, t types.Type, a, b, at string) {
	vc := f.vc
	if isNilConst(x.X) || isNilConst(x.Y) {
		return
	}
	n, ok := vc.P.closedInterface(t)
	if !ok {
		return
	}
	info := vc.S.ifaceInfoOf(n)
	var bad []string
	for i, T := range info.Impls {
		if !types.Comparable(T) {
			bad = append(bad, and("((_ is "+info.Ctors[i]+") "+a+")", "((_ is "+info.Ctors[i]+") "+b+")"))
		}
	}
	if len(bad) > 0 {
		f.safe("ifacecmp", x, at, not(or(bad...)))
	}
}

func (f *Frame) convert(x *ssa.Convert, at string, st *State) string {
	vc := f.vc
	from, to := x.X.Type(), x.Type()
	v := f.term(x.X)
	switch {
	case isInteger(from) && isInteger(to):
		flo, fhi, _ := intRange(from)
		tlo, thi, _ := intRange(to)
		if flo == tlo && fhi == thi {
			return v
		}
		return vc.define(f.nm(x.Name()), "Int", wrapInt(to, v))
	case isString(from) && isByteSlice(to):
		// fresh array holding the bytes of the string
		comp := vc.S.arrComp(to)
		arr := vc.define(f.nm(x.Name()+"_arr"), "Int", st.alloc)
		st.alloc = vc.define(f.nm("alloc"), "Int", "(+ "+st.alloc+" 1)")
		inner := vc.declare(f.nm(x.Name()+"_bytes"), "(Array Int Int)")
		h := vc.heapOf(st, comp)
		st.heap[comp.Name] = vc.define(comp.Name, comp.Sort, sto(h, arr, inner))
		s := vc.define(f.nm(x.Name()), "Slice", fmt.Sprintf("(mk_slice %s 0 (strlen %s) (strlen %s))", arr, v, v))
		vc.assume(at, eq(fmt.Sprintf("(bview %s 0 (strlen %s))", inner, v), "(bytes_of_str "+v+")"), "[]byte(string)")
		return s
	case isByteSlice(from) && isString(to):
		comp := vc.S.arrComp(from)
		h := vc.heapOf(st, comp)
		r := vc.define(f.nm(x.Name()), "Str", fmt.Sprintf("(str_of_bytes (bview (select %s (s_arr %s)) (s_off %s) (s_len %s)))", h, v, v, v))
		vc.assume(at, eq("(strlen "+r+")", "(s_len "+v+")"), "string([]byte) length")
		return r
	case isString(from) && isString(to):
		return v
	}
	panic(unsupported{"conversion " + from.String() + " -> " + to.String()})
}

func isByteSlice(t types.Type) bool {
	s, ok := t.Underlying().(*types.Slice)
	if !ok {
		return false
	}
	b, ok := s.Elem().Underlying().(*types.Basic)
	return ok && b.Kind() == types.Uint8
}

func tname(t types.Type) string {
	return mangle(types.TypeString(t, func(p *types.Package) string { return shortPkg(p.Path()) }))
}

// makeInterface boxes a concrete value into an interface.
func (f *Frame) makeInterface(from, to types.Type, v string) string {
	vc := f.vc
	if n, ok := vc.P.closedInterface(to); ok {
		info := vc.S.ifaceInfoOf(n)
		i := info.implIndex(from)
		if i < 0 {
			panic(unsupported{"make interface: " + from.String() + " not an implementor of " + to.String()})
		}
		return "(" + info.Ctors[i] + " " + v + ")"
	}
	// open interface: uninterpreted injective boxing, never nil
	return vc.box(from, v)
}

// box: open-interface value of a concrete type. box_T is injective (unbox_T
// inverts it) and yields non-nil values tagged with T.
func (vc *VC) box(from types.Type, v string) string {
	tn := tname(from)
	fn := "box_" + tn
	so := vc.S.sortOf(from)
	if !vc.declared[fn] {
		vc.declared[fn] = true
		vc.decls = append(vc.decls,
			fmt.Sprintf("(declare-fun %s (%s) Int)", fn, so),
			fmt.Sprintf("(declare-fun unbox_%s (Int) %s)", tn, so))
		vc.declareDynTag()
	}
	// ground instances of: box is injective, never nil, and tags its dynamic type
	t := "(" + fn + " " + v + ")"
	if !strings.Contains(v, "q_") && !vc.boxed[t] {
		if vc.boxed == nil {
			vc.boxed = map[string]bool{}
		}
		vc.boxed[t] = true
		id := vc.dynTagId(from)
		vc.assume("true", fmt.Sprintf("(and (not (= %s 0)) (= (unbox_%s %s) %s) (= (dyntag %s) %d))", t, tn, t, v, t, id), "boxing into an open interface")
	}
	return "(" + fn + " " + v + ")"
}

func (vc *VC) declareDynTag() {
	if !vc.declared["dyntag"] {
		vc.declared["dyntag"] = true
		vc.decls = append(vc.decls, "(declare-fun dyntag (Int) Int)")
	}
}

var dynTags = map[string]int{}

func (vc *VC) dynTagId(t types.Type) int {
	k := typeKey(t)
	if id, ok := dynTags[k]; ok {
		return id
	}
	id := len(dynTags) + 1
	dynTags[k] = id
	return id
}

func (vc *VC) unboxDecl(to types.Type) string {
	tn := tname(to)
	vc.box(to, vc.zero(to)) // forces declarations
	return "unbox_" + tn
}

func (f *Frame) changeInterface(from, to types.Type, v string) string {
	vc := f.vc
	nf, cf := vc.P.closedInterface(from)
	nt, ct := vc.P.closedInterface(to)
	switch {
	case cf && ct:
		if types.Identical(from, to) {
			return v
		}
		fi, ti := vc.S.ifaceInfoOf(nf), vc.S.ifaceInfoOf(nt)
		t := ti.Nil
		for i, T := range fi.Impls {
			j := ti.implIndex(T)
			if j < 0 {
				continue
			}
			t = ite("((_ is "+fi.Ctors[i]+") "+v+")", "("+ti.Ctors[j]+" ("+fi.Projs[i]+" "+v+"))", t)
		}
		return vc.define(f.nm("chi"), ti.Name, t)
	case cf && !ct:
		fi := vc.S.ifaceInfoOf(nf)
		t := "0"
		for i, T := range fi.Impls {
			t = ite("((_ is "+fi.Ctors[i]+") "+v+")", vc.box(T, "("+fi.Projs[i]+" "+v+")"), t)
		}
		return vc.define(f.nm("chi"), "Int", t)
	case !cf && !ct:
		return v
	}
	panic(unsupported{"change interface open -> closed"})
}

func (f *Frame) typeAssert(x *ssa.TypeAssert, at string) *Val {
	vc := f.vc
	v := f.term(x.X)
	var ok, val string
	if n, closed := vc.P.closedInterface(x.X.Type()); closed {
		info := vc.S.ifaceInfoOf(n)
		if _, toIface := x.AssertedType.Underlying().(*types.Interface); toIface {
			panic(unsupported{"type assertion closed interface -> interface"})
		}
		i := info.implIndex(x.AssertedType)
		if i < 0 {
			ok = "false"
			val = vc.zero(x.AssertedType)
		} else {
			ok = "((_ is " + info.Ctors[i] + ") " + v + ")"
			val = ite(ok, "("+info.Projs[i]+" "+v+")", vc.zero(x.AssertedType))
		}
	} else {
		if _, toIface := x.AssertedType.Underlying().(*types.Interface); toIface {
			panic(unsupported{"type assertion to interface type"})
		}
		un := vc.unboxDecl(x.AssertedType)
		id := vc.dynTagId(x.AssertedType)
		ok = fmt.Sprintf("(and (not (= %s 0)) (= (dyntag %s) %d))", v, v, id)
		val = ite(ok, "("+un+" "+v+")", vc.zero(x.AssertedType))
	}
	okT := vc.define(f.nm(x.Name()+"_ok"), "Bool", ok)
	valT := vc.define(f.nm(x.Name()+"_v"), vc.S.sortOf(x.AssertedType), val)
	if x.CommaOk {
		return &Val{Tup: []*Val{{T: valT}, {T: okT}}}
	}
	f.safe("assert", x, at, okT)
	return &Val{T: valT}
}

func (f *Frame) indexAddr(x *ssa.IndexAddr, at string, st *State) *Val {
	vc := f.vc
	idx := f.term(x.Index)
	switch t := x.X.Type().Underlying().(type) {
	case *types.Slice:
		s := f.term(x.X)
		f.safe("index", x, at, fmt.Sprintf("(and (<= 0 %s) (< %s (s_len %s)))", idx, idx, s))
		return &Val{A: &Addr{Comp: vc.S.arrComp(x.X.Type()), Ref: "(s_arr " + s + ")", Idx: "(ix (s_off " + s + ") " + idx + ")", Typ: t.Elem()}}
	case *types.Pointer:
		arr := t.Elem().Underlying().(*types.Array)
		base := f.val(x.X)
		n := fmt.Sprint(arr.Len())
		if base.A != nil && base.A.Const != "" {
			// immutable global array
			f.safe("index", x, at, fmt.Sprintf("(and (<= 0 %s) (< %s %s))", idx, idx, n))
			return &Val{A: &Addr{Const: sel(base.A.Const, idx), Typ: arr.Elem()}}
		}
		if base.A != nil && (len(base.A.Path) > 0 || base.A.Idx != "") {
			panic(unsupported{"index into array nested in a struct"})
		}
		ref := base.T
		if base.A != nil {
			ref = base.A.Ref
		} else {
			f.safe("nil", x, at, not(eq(ref, "0")))
		}
		f.safe("index", x, at, fmt.Sprintf("(and (<= 0 %s) (< %s %s))", idx, idx, n))
		return &Val{A: &Addr{Comp: vc.S.arrComp(vc.P.arrayTypeOf(x.X)), Ref: ref, Idx: idx, Typ: arr.Elem()}}
	}
	panic(unsupported{"IndexAddr on " + x.X.Type().String()})
}

func (f *Frame) index(x *ssa.Index, at string, st *State) *Val {
	vc := f.vc
	idx := f.term(x.Index)
	v := f.term(x.X)
	switch t := x.X.Type().Underlying().(type) {
	case *types.Array:
		f.safe("index", x, at, fmt.Sprintf("(and (<= 0 %s) (< %s %d))", idx, idx, t.Len()))
		r := vc.define(f.nm(x.Name()), vc.S.sortOf(x.Type()), sel(v, idx))
		vc.assume(at, vc.typeInv(r, x.Type(), st.alloc), "type invariant")
		return &Val{T: r}
	case *types.Basic: // string
		f.safe("index", x, at, fmt.Sprintf("(and (<= 0 %s) (< %s (strlen %s)))", idx, idx, v))
		r := vc.define(f.nm(x.Name()), "Int", "(str_at "+v+" "+idx+")")
		vc.assume(at, vc.typeInv(r, x.Type(), ""), "type invariant")
		return &Val{T: r}
	}
	panic(unsupported{"Index on " + x.X.Type().String()})
}

func (f *Frame) sliceOp(x *ssa.Slice, at string, st *State) *Val {
	vc := f.vc
	opt := func(v ssa.Value, def string) string {
		if v == nil {
			return def
		}
		return f.term(v)
	}
	switch t := x.X.Type().Underlying().(type) {
	case *types.Slice:
		s := f.term(x.X)
		lo := opt(x.Low, "0")
		hi := opt(x.High, "(s_len "+s+")")
		mx := opt(x.Max, "(s_cap "+s+")")
		f.safe("slice", x, at, fmt.Sprintf("(and (<= 0 %s) (<= %s %s) (<= %s %s) (<= %s (s_cap %s)))", lo, lo, hi, hi, mx, mx, s))
		r := fmt.Sprintf("(mk_slice (s_arr %s) (+ (s_off %s) %s) (- %s %s) (- %s %s))", s, s, lo, hi, lo, mx, lo)
		return &Val{T: vc.define(f.nm(x.Name()), "Slice", r)}
	case *types.Basic: // string
		s := f.term(x.X)
		lo := opt(x.Low, "0")
		hi := opt(x.High, "(strlen "+s+")")
		f.safe("slice", x, at, fmt.Sprintf("(and (<= 0 %s) (<= %s %s) (<= %s (strlen %s)))", lo, lo, hi, hi, s))
		r := vc.define(f.nm(x.Name()), "Str", fmt.Sprintf("(str_sub %s %s %s)", s, lo, hi))
		vc.assume(at, eq("(strlen "+r+")", "(- "+hi+" "+lo+")"), "substring length")
		return &Val{T: r}
	case *types.Pointer:
		arr := t.Elem().Underlying().(*types.Array)
		base := f.val(x.X)
		if base.A != nil && base.A.Const != "" {
			panic(unsupported{"slicing an immutable global array"})
		}
		ref := base.T
		if base.A != nil {
			if len(base.A.Path) > 0 || base.A.Idx != "" {
				panic(unsupported{"slicing array nested in a struct"})
			}
			ref = base.A.Ref
		} else {
			f.safe("nil", x, at, not(eq(ref, "0")))
		}
		n := fmt.Sprint(arr.Len())
		lo := opt(x.Low, "0")
		hi := opt(x.High, n)
		mx := opt(x.Max, n)
		f.safe("slice", x, at, fmt.Sprintf("(and (<= 0 %s) (<= %s %s) (<= %s %s) (<= %s %s))", lo, lo, hi, hi, mx, mx, n))
		r := fmt.Sprintf("(mk_slice %s %s (- %s %s) (- %s %s))", ref, lo, hi, lo, mx, lo)
		return &Val{T: vc.define(f.nm(x.Name()), "Slice", r)}
	}
	panic(unsupported{"Slice on " + x.X.Type().String()})
}

// allocArr allocates a fresh backing array for slices of type T.
func (f *Frame) allocArr(T types.Type, hint string, st *State, zeroed bool) (arr string, comp *Component) {
	vc := f.vc
	comp = vc.S.arrComp(T)
	E := T.Underlying().(*types.Slice).Elem()
	arr = vc.define(f.nm(hint+"_arr"), "Int", st.alloc)
	st.alloc = vc.define(f.nm("alloc"), "Int", "(+ "+st.alloc+" 1)")
	h := vc.heapOf(st, comp)
	var inner string
	if zeroed {
		inner = "((as const (Array Int " + comp.VSort + ")) " + vc.zero(E) + ")"
	} else {
		inner = vc.declare(f.nm(hint+"_new"), "(Array Int "+comp.VSort+")")
	}
	st.heap[comp.Name] = vc.define(comp.Name, comp.Sort, sto(h, arr, inner))
	return
}

func (f *Frame) makeSlice(x *ssa.MakeSlice, at string, st *State) *Val {
	vc := f.vc
	ln, cp := f.term(x.Len), f.term(x.Cap)
	// a length beyond the address space is an out-of-memory condition, which is
	// outside what is modelled (listed); negative or len > cap is a panic
	f.safe("makeslice", x, at, fmt.Sprintf("(and (<= 0 %s) (<= %s %s))", ln, ln, cp))
	vc.assume(at, "(<= "+cp+" "+maxLen+")", "make: capacity is bounded by the address space")
	E := x.Type().Underlying().(*types.Slice).Elem()
	_ = E
	arr, _ := f.allocArr(x.Type(), x.Name(), st, true)
	return &Val{T: vc.define(f.nm(x.Name()), "Slice", fmt.Sprintf("(mk_slice %s 0 %s %s)", arr, ln, cp))}
}

// ---- maps ----------------------------------------------------------------

func (f *Frame) hashableSafe(in ssa.Instruction, keyT types.Type, k, at string) {
	vc := f.vc
	n, ok := vc.P.closedInterface(keyT)
	if !ok {
		return
	}
	info := vc.S.ifaceInfoOf(n)
	var bad []string
	for i, T := range info.Impls {
		if !types.Comparable(T) {
			bad = append(bad, "((_ is "+info.Ctors[i]+") "+k+")")
		}
	}
	if len(bad) > 0 {
		f.safe("hashable", in, at, not(or(bad...)))
	}
}

func (f *Frame) mapUpdate(x *ssa.MapUpdate, at string, st *State) {
	vc := f.vc
	m := x.Map.Type().Underlying().(*types.Map)
	ref, k, v := f.term(x.Map), f.term(x.Key), f.term(x.Value)
	f.safe("nilmap", x, at, not(eq(ref, "0")))
	f.hashableSafe(x, m.Key(), k, at)
	vcomp, dcomp := vc.S.mapComps(m)
	f.checkFrameRef(x, vcomp, ref, at)
	hv, hd := vc.heapOf(st, vcomp), vc.heapOf(st, dcomp)
	st.heap[vcomp.Name] = vc.define(vcomp.Name, vcomp.Sort, sto(hv, ref, sto(sel(hv, ref), k, v)))
	st.heap[dcomp.Name] = vc.define(dcomp.Name, dcomp.Sort, sto(hd, ref, sto(sel(hd, ref), k, "true")))
}

func (f *Frame) lookup(x *ssa.Lookup, at string, st *State) *Val {
	vc := f.vc
	m, ok := x.X.Type().Underlying().(*types.Map)
	if !ok {
		panic(unsupported{"string lookup"})
	}
	ref, k := f.term(x.X), f.term(x.Index)
	f.hashableSafe(x, m.Key(), k, at)
	vcomp, dcomp := vc.S.mapComps(m)
	if ld, ok := x.X.(*ssa.UnOp); ok {
		if g, ok := ld.X.(*ssa.Global); ok {
			_, mutable := vc.G.Mutable[g]
			_, aliased := vc.G.MapAliased[g]
			if kvs, ok := vc.G.InitMap[g]; ok && !mutable && !aliased && g.Pkg != nil && vc.P.Module[g.Pkg.Pkg] {
				// constant table: a map global written only by its package initialiser (a
				// literal of constant keys and values) and used only for lookups
				vc.usedAssumptions["global "+shortPkg(g.Pkg.Pkg.Path())+"."+g.Name()+" is a constant table: written only by its package initialiser, its value used only for lookups (checked over the module's SSA)"] = true
				var hits []string
				val := vc.zero(m.Elem())
				for i := len(kvs) - 1; i >= 0; i-- {
					kt := vc.constTerm(kvs[i][0])
					hits = append(hits, eq(k, kt))
					val = ite(eq(k, kt), vc.constTerm(kvs[i][1]), val)
				}
				present := vc.define(f.nm(x.Name()+"_ok"), "Bool", or(hits...))
				v := vc.define(f.nm(x.Name()+"_v"), vcomp.VSort, val)
				if x.CommaOk {
					return &Val{Tup: []*Val{{T: v}, {T: present}}}
				}
				return &Val{T: v}
			}
		}
	}
	hv, hd := vc.heapOf(st, vcomp), vc.heapOf(st, dcomp)
	// a nil map reads as empty
	present := vc.define(f.nm(x.Name()+"_ok"), "Bool", and(not(eq(ref, "0")), sel(sel(hd, ref), k)))
	val := vc.define(f.nm(x.Name()+"_v"), vcomp.VSort, ite(present, sel(sel(hv, ref), k), vc.zero(m.Elem())))
	vc.assume(at, vc.typeInv(val, m.Elem(), st.alloc), "type invariant")
	if x.CommaOk {
		return &Val{Tup: []*Val{{T: val}, {T: present}}}
	}
	return &Val{T: val}
}

// Range/Next over maps: the iteration is modelled as an arbitrary sequence of
// present keys; facts about it come only from loop invariants.
func (f *Frame) rangeInit(x *ssa.Range, at string, st *State) *Val {
	m, ok := x.X.Type().Underlying().(*types.Map)
	if !ok {
		panic(unsupported{"range over string"})
	}
	// ghost state of the iteration: the set of keys already yielded
	vc := f.vc
	comp := f.rangeComp(x, m)
	ks := vc.S.sortOf(m.Key())
	st.heap[comp.Name] = "((as const (Array " + ks + " Bool)) false)"
	return &Val{T: f.term(x.X)}
}

// rangeComp: pseudo heap component holding the "seen" set of a map iteration.
func (f *Frame) rangeComp(x *ssa.Range, m *types.Map) *Component {
	vc := f.vc
	name := fmt.Sprintf("RangeSeen_%s_%s", f.prefix, x.Name())
	if c, ok := vc.S.comps[name]; ok {
		return c
	}
	ks := vc.S.sortOf(m.Key())
	c := &Component{Name: name, Sort: "(Array " + ks + " Bool)", VSort: "Bool", T: m}
	vc.S.comps[name] = c
	vc.S.compOrder = append(vc.S.compOrder, name)
	return c
}

func (f *Frame) rangeNext(x *ssa.Next, at string, st *State) *Val {
	vc := f.vc
	if x.IsString {
		panic(unsupported{"range over string"})
	}
	rng := x.Iter.(*ssa.Range)
	m := rng.X.Type().Underlying().(*types.Map)
	ref := f.term(rng.X)
	vcomp, dcomp := vc.S.mapComps(m)
	hv, hd := vc.heapOf(st, vcomp), vc.heapOf(st, dcomp)
	ok := vc.declare(f.nm(x.Name()+"_ok"), "Bool")
	k := vc.declare(f.nm(x.Name()+"_k"), vc.S.sortOf(m.Key()))
	vc.assume(at, implies(ok, and(not(eq(ref, "0")), sel(sel(hd, ref), k))), "range yields present keys")
	// each key is yielded at most once, and the iteration ends only when every
	// key present has been yielded (the map is not modified by the loops here;
	// if it is, the domain read at this point is the current one)
	scomp := f.rangeComp(rng, m)
	seen := vc.heapOf(st, scomp)
	vc.assume(at, implies(ok, not(sel(seen, k))), "range yields each key once")
	vc.ctr++
	q := fmt.Sprintf("q!%d", vc.ctr)
	vc.assume(at, implies(not(ok), or(eq(ref, "0"), fmt.Sprintf("(forall ((%[1]s %[2]s)) (! (=> (select (select %[3]s %[4]s) %[1]s) (select %[5]s %[1]s)) :pattern ((select (select %[3]s %[4]s) %[1]s))))", q, vc.S.sortOf(m.Key()), hd, ref, seen))), "range ends when every key has been yielded")
	st.heap[scomp.Name] = vc.define(scomp.Name, scomp.Sort, ite(ok, sto(seen, k, "true"), seen))
	vc.assume(at, vc.typeInv(k, m.Key(), st.alloc), "type invariant")
	v := vc.define(f.nm(x.Name()+"_v"), vcomp.VSort, sel(sel(hv, ref), k))
	vc.assume(at, vc.typeInv(v, m.Elem(), st.alloc), "type invariant")
	return &Val{Tup: []*Val{{T: ok}, {T: k}, {T: v}}}
}
