package main

import (
	"fmt"
	"go/ast"
	"go/token"
	"go/types"
	"sort"
	"strings"

	"golang.org/x/tools/go/packages"
	"golang.org/x/tools/go/ssa"
	"golang.org/x/tools/go/ssa/ssautil"
)

// Program is the loaded repository: typed syntax, SSA, and indexes used by the
// VC generator. It is rebuilt from /repo's working tree on every run.
type Program struct {
	Fset   *token.FileSet
	Pkgs   []*packages.Package
	Prog   *ssa.Program
	SPkgs  map[string]*ssa.Package // by short name: biscuit, datalog, parser, pb
	ByName map[string]*ssa.Function // canonical name -> function
	Module map[*types.Package]bool  // packages of the module under verification
	Files  map[string]*ast.File     // filename -> syntax

	impls map[*types.Named][]types.Type // closed-world implementors cache
	eff   map[*ssa.Function]*effectSet
	SS    *SpecSet

	uf           map[string]string // slice-type classes (classes.go)
	classesBuilt bool
}

const modPath = "github.com/biscuit-auth/biscuit-go/v2"

func loadProgram(dir string) (*Program, error) {
	cfg := &packages.Config{
		Mode:       packages.LoadAllSyntax,
		Dir:        dir,
		BuildFlags: []string{"-tags=verif"},
		Env:        append(osEnviron(), "GOFLAGS=-mod=mod", "GOPROXY=off", "GOSUMDB=off", "GOTOOLCHAIN=local"),
	}
	pkgs, err := packages.Load(cfg, ".", "./datalog", "./parser", "./pb")
	if err != nil {
		return nil, err
	}
	for _, p := range pkgs {
		if len(p.Errors) > 0 {
			return nil, fmt.Errorf("package %s: %v", p.PkgPath, p.Errors[0])
		}
	}
	prog, spkgs := ssautil.AllPackages(pkgs, ssa.GlobalDebug)
	prog.Build()
	P := &Program{
		Pkgs:   pkgs,
		Prog:   prog,
		SPkgs:  map[string]*ssa.Package{},
		ByName: map[string]*ssa.Function{},
		Module: map[*types.Package]bool{},
		Files:  map[string]*ast.File{},
		impls:  map[*types.Named][]types.Type{},
	}
	for i, p := range pkgs {
		if spkgs[i] == nil {
			continue
		}
		P.Fset = p.Fset
		short := shortPkg(p.PkgPath)
		P.SPkgs[short] = spkgs[i]
		P.Module[p.Types] = true
		for j, f := range p.Syntax {
			P.Files[p.CompiledGoFiles[j]] = f
		}
	}
	for fn := range ssautil.AllFunctions(prog) {
		if fn.Pkg == nil || !P.Module[fn.Pkg.Pkg] {
			continue
		}
		if fn.Synthetic != "" && !strings.Contains(fn.Name(), "$") {
			// wrappers, thunks, bound methods: never verified directly
			if fn.Name() != "init" {
				continue
			}
		}
		P.ByName[canonName(fn)] = fn
	}
	return P, nil
}

func shortPkg(path string) string {
	switch path {
	case modPath:
		return "biscuit"
	}
	if strings.HasPrefix(path, modPath+"/") {
		return strings.TrimPrefix(path, modPath+"/")
	}
	return path
}

// canonName gives "pkg.Recv.Name" / "pkg.Name" / "pkg.Outer$1", stable under
// edits to function bodies.
func canonName(fn *ssa.Function) string {
	pkg := ""
	if fn.Pkg != nil {
		pkg = shortPkg(fn.Pkg.Pkg.Path())
	} else if fn.Object() != nil && fn.Object().Pkg() != nil {
		pkg = shortPkg(fn.Object().Pkg().Path())
	}
	if fn.Parent() != nil {
		// closure: Outer$k
		outer := canonName(fn.Parent())
		nm := fn.Name()
		if i := strings.LastIndex(nm, "$"); i >= 0 {
			return outer + nm[i:]
		}
		return outer + "$" + nm
	}
	if recv := fn.Signature.Recv(); recv != nil {
		t := recv.Type()
		if p, ok := t.(*types.Pointer); ok {
			t = p.Elem()
		}
		if n, ok := t.(*types.Named); ok {
			if n.Obj().Pkg() != nil {
				pkg = shortPkg(n.Obj().Pkg().Path())
			}
			return pkg + "." + n.Obj().Name() + "." + fn.Name()
		}
	}
	return pkg + "." + fn.Name()
}

// isModuleNamed reports whether t is a named type declared in the module.
func (P *Program) isModuleNamed(t types.Type) (*types.Named, bool) {
	n, ok := t.(*types.Named)
	if !ok || n.Obj().Pkg() == nil {
		return nil, false
	}
	return n, P.Module[n.Obj().Pkg()]
}

// closedInterface: an interface type declared in the module (all its
// implementors are then taken to be the module's own types — closed world).
func (P *Program) closedInterface(t types.Type) (*types.Named, bool) {
	n, ok := P.isModuleNamed(t)
	if !ok {
		return nil, false
	}
	if _, isI := n.Underlying().(*types.Interface); !isI {
		return nil, false
	}
	return n, true
}

// implementors lists, in a deterministic order, the concrete module types (T or *T)
// that implement the closed interface n.
func (P *Program) implementors(n *types.Named) []types.Type {
	if r, ok := P.impls[n]; ok {
		return r
	}
	iface := n.Underlying().(*types.Interface)
	var out []types.Type
	var pkgs []*types.Package
	for p := range P.Module {
		pkgs = append(pkgs, p)
	}
	sort.Slice(pkgs, func(i, j int) bool { return pkgs[i].Path() < pkgs[j].Path() })
	for _, p := range pkgs {
		names := p.Scope().Names()
		for _, nm := range names {
			tn, ok := p.Scope().Lookup(nm).(*types.TypeName)
			if !ok || tn.IsAlias() {
				continue
			}
			T := tn.Type()
			if _, isI := T.Underlying().(*types.Interface); isI {
				continue
			}
			if types.Implements(T, iface) {
				out = append(out, T)
			} else if pt := types.NewPointer(T); types.Implements(pt, iface) {
				out = append(out, pt)
			}
		}
	}
	P.impls[n] = out
	return out
}

// srcText returns a short, whitespace-normalised rendering of the smallest
// expression/statement enclosing pos, used to label safety obligations in a way
// that survives unrelated edits.
func (P *Program) srcText(pos token.Pos) string {
	if !pos.IsValid() {
		return ""
	}
	position := P.Fset.Position(pos)
	f := P.Files[position.Filename]
	if f == nil {
		return ""
	}
	var best ast.Node
	ast.Inspect(f, func(n ast.Node) bool {
		if n == nil {
			return false
		}
		if n.Pos() <= pos && pos < n.End() {
			switch n.(type) {
			case ast.Expr:
				best = n
			}
			return true
		}
		return false
	})
	if best == nil {
		return ""
	}
	s := nodeString(P.Fset, best)
	s = strings.Join(strings.Fields(s), "")
	if len(s) > 48 {
		s = s[:48]
	}
	return s
}

func (P *Program) line(pos token.Pos) string {
	if !pos.IsValid() {
		return ""
	}
	p := P.Fset.Position(pos)
	return fmt.Sprintf("%s:%d", strings.TrimPrefix(p.Filename, "/repo/"), p.Line)
}
