package main

import (
	"fmt"
	"go/types"
	"os"
	"sort"

	"golang.org/x/tools/go/ssa"
)

// Type-based partition of backing arrays. Two slice values can share a backing
// array only if their static types are connected by conversions that occur in
// the module (ChangeType between slice types, slicing of an addressable array).
// Each class of slice types gets its own heap component, which gives separation
// between e.g. the evaluation stack, set elements and predicate terms without
// any annotation. The classes are recomputed from the SSA on every run.

func (P *Program) ufFind(k string) string {
	if P.uf == nil {
		P.uf = map[string]string{}
	}
	p, ok := P.uf[k]
	if !ok {
		P.uf[k] = k
		return k
	}
	if p == k {
		return k
	}
	r := P.ufFind(p)
	P.uf[k] = r
	return r
}

func (P *Program) ufUnion(a, b string) {
	ra, rb := P.ufFind(a), P.ufFind(b)
	if ra == rb {
		return
	}
	if os.Getenv("GOVC_DEBUG_CLASSES") != "" {
		fmt.Fprintf(os.Stderr, "class union: %s ~ %s\n", a, b)
	}
	// smaller key is the representative (deterministic)
	if rb < ra {
		ra, rb = rb, ra
	}
	P.uf[rb] = ra
}

func isSliceT(t types.Type) bool {
	_, ok := t.Underlying().(*types.Slice)
	return ok
}

func arrayOfPtr(t types.Type) (*types.Array, bool) {
	p, ok := t.Underlying().(*types.Pointer)
	if !ok {
		return nil, false
	}
	a, ok := p.Elem().Underlying().(*types.Array)
	return a, ok
}

func (P *Program) buildSliceClasses() {
	P.classesBuilt = true
	var fns []*ssa.Function
	for _, fn := range P.ByName {
		fns = append(fns, fn)
	}
	sort.Slice(fns, func(i, j int) bool { return canonName(fns[i]) < canonName(fns[j]) })
	for _, fn := range fns {
		for _, b := range fn.Blocks {
			for _, in := range b.Instrs {
				switch x := in.(type) {
				case *ssa.ChangeType:
					if isSliceT(x.X.Type()) && isSliceT(x.Type()) && !onlyReadAsSource(x) {
						P.ufUnion(typeKey(x.X.Type()), typeKey(x.Type()))
					}
				case *ssa.Convert:
					if isSliceT(x.X.Type()) && isSliceT(x.Type()) {
						P.ufUnion(typeKey(x.X.Type()), typeKey(x.Type()))
					}
				case *ssa.Slice:
					if arr, ok := arrayOfPtr(x.X.Type()); ok {
						if _, isAlloc := x.X.(*ssa.Alloc); !isAlloc {
							P.ufUnion(typeKey(arr), typeKey(x.Type()))
						}
					}
				}
			}
		}
	}
}

// sliceClass returns the class key of a slice (or array) type.
func (P *Program) sliceClass(t types.Type) string {
	if !P.classesBuilt {
		P.buildSliceClasses()
	}
	return P.ufFind(typeKey(t))
}

// allocArrayType: the slice type under which a locally allocated array is used
// (the type of the Slice instructions applied to it); the array type itself when
// it is never sliced.
func (P *Program) allocArrayType(a *ssa.Alloc) types.Type {
	arr, _ := arrayOfPtr(a.Type())
	var res types.Type
	if refs := a.Referrers(); refs != nil {
		for _, r := range *refs {
			if sl, ok := r.(*ssa.Slice); ok && sl.X == ssa.Value(a) {
				if res == nil {
					res = sl.Type()
				} else if typeKey(res) != typeKey(sl.Type()) {
					P.ufUnion(typeKey(res), typeKey(sl.Type()))
				}
			}
		}
	}
	if res == nil {
		return arr
	}
	return res
}

// arrayTypeOf: slice-class type for a pointer-to-array SSA value.
func (P *Program) arrayTypeOf(v ssa.Value) types.Type {
	if a, ok := v.(*ssa.Alloc); ok {
		return P.allocArrayType(a)
	}
	arr, _ := arrayOfPtr(v.Type())
	return arr
}

// onlyReadAsSource: the converted slice is used only as the source operand of
// append(dst, src...) or copy(dst, src) — its elements are read and copied, no
// alias of the backing array under the new type survives the call.
func onlyReadAsSource(x *ssa.ChangeType) bool {
	refs := x.Referrers()
	if refs == nil || len(*refs) == 0 {
		return false
	}
	for _, r := range *refs {
		if _, ok := r.(*ssa.DebugRef); ok {
			continue
		}
		c, ok := r.(*ssa.Call)
		if !ok {
			return false
		}
		b, ok := c.Call.Value.(*ssa.Builtin)
		if !ok || (b.Name() != "append" && b.Name() != "copy") {
			return false
		}
		if len(c.Call.Args) != 2 || c.Call.Args[1] != ssa.Value(x) || c.Call.Args[0] == ssa.Value(x) {
			return false
		}
	}
	return true
}
