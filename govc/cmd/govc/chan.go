package main

import (
	"fmt"
	"go/types"
	"strings"

	"golang.org/x/tools/go/ssa"
)

// The producer/consumer rule (DESIGN.md 2.6), in the form that is implemented:
//
//   - A goroutine body P that sends on a channel c is verified as a sequential
//     function. Its contract carries channel clauses:
//         //@ chan c yields x: I(x)        every value sent satisfies I (at send time)
//         //@ chan c final_if x: F(x)      after sending a value with F nothing more is sent
//         //@ chan c sends_at_most N
//         //@ chan c closes                the channel is closed on every return
//     Each send is an obligation (I holds; no send after a final one; count).
//   - In the consumer, a receive from a channel whose producer is known (started
//     with `go` in this function, or in a callee that returns the channel) yields
//     a fresh value satisfying I, after the producer's effects (havoc of what P may
//     write, with P's frame). ok=false means closed.
//   - Stranding: at every return of a function that holds the receiving end of
//     such a channel, the producer must be known to have finished sending (the
//     last received value was final, or the channel was seen closed), or the
//     channel's buffer must cover everything the producer may still send.
//
// What is NOT modelled: interleavings (the consumer does not see the producer's
// writes before a receive), and completeness/order of the sequence of values.

type ChanSpec struct {
	Name    string
	Elem    string // name bound to the sent value in Yields / FinalIf
	Yields  []Clause
	Sends   []Clause
	FinalIf []Clause
	Closes  bool
	AtMost  int // 0 = unbounded
}

type chanProd struct {
	key   ssa.Value
	fn    *ssa.Function
	con   *Contract
	spec  *ChanSpec
	names map[string]*specBinding
	pkg   *types.Package
	cap   string // buffer capacity term
	label string
	// consumer-side tracking
	pre        *State // state when the goroutine was started: old(...) in its channel clauses
	allocAt    string
}

// drainedComp names the ghost state "the producer of this channel has finished
// sending" (set by receives: a final value was received, or the channel was seen
// closed).
func (p *chanProd) drainedComp() string {
	return "ChanDrained_" + sanitize(p.label) + "_" + sanitize(p.key.Name())
}

// parseChanClause handles "chan <name> yields x: e | final_if x: e | closes | sends_at_most N".
func parseChanClause(cur *Contract, rest, where string) error {
	name, r := splitWord(rest)
	kw, r2 := splitWord(r)
	if cur.Chans == nil {
		cur.Chans = map[string]*ChanSpec{}
	}
	cs := cur.Chans[name]
	if cs == nil {
		cs = &ChanSpec{Name: name}
		cur.Chans[name] = cs
	}
	switch kw {
	case "closes":
		cs.Closes = true
	case "sends_at_most":
		n := 0
		fmt.Sscan(r2, &n)
		if n <= 0 {
			return fmt.Errorf("sends_at_most needs a positive number")
		}
		cs.AtMost = n
	case "yields", "final_if", "sends":
		// yields: checked at every send AND assumed at every receive
		// sends:  checked at every send only (may mention the producer's locals)
		i := strings.Index(r2, ":")
		if i < 0 {
			return fmt.Errorf("chan %s %s: expected '<name>: <expr>'", name, kw)
		}
		cs.Elem = strings.TrimSpace(r2[:i])
		e, err := parseExpr(r2[i+1:])
		if err != nil {
			return err
		}
		cl := Clause{Expr: e, Src: strings.TrimSpace(r2[i+1:]), Line: where}
		switch kw {
		case "yields":
			cs.Yields = append(cs.Yields, cl)
		case "sends":
			cs.Sends = append(cs.Sends, cl)
		default:
			cs.FinalIf = append(cs.FinalIf, cl)
		}
	default:
		return fmt.Errorf("unknown chan clause %q", kw)
	}
	return nil
}

// chanKey: the canonical SSA value standing for a channel: the MakeChan, the
// Alloc cell that holds it, a call result, a parameter or free variable.
func chanKey(v ssa.Value) ssa.Value {
	for {
		switch x := v.(type) {
		case *ssa.ChangeType:
			v = x.X
		case *ssa.UnOp:
			if x.Op.String() == "*" {
				v = x.X
				continue
			}
			return v
		default:
			return v
		}
	}
}

func isChanType(t types.Type) bool {
	_, ok := t.Underlying().(*types.Chan)
	return ok
}

func (f *Frame) chanOf(v ssa.Value) *chanProd {
	k := chanKey(v)
	if p, ok := f.chans[k]; ok {
		return p
	}
	// a MakeChan stored into a local cell: look through the cell
	if mc, ok := k.(*ssa.MakeChan); ok {
		if refs := mc.Referrers(); refs != nil {
			for _, r := range *refs {
				if st, ok := r.(*ssa.Store); ok && st.Val == ssa.Value(mc) {
					if p, ok := f.chans[st.Addr]; ok {
						return p
					}
				}
			}
		}
	}
	return nil
}

// makeChan: a fresh reference; the capacity is remembered for the strand rule.
func (f *Frame) makeChan(x *ssa.MakeChan, at string, st *State) *Val {
	vc := f.vc
	r := vc.define(f.nm(x.Name()), "Int", st.alloc)
	st.alloc = vc.define(f.nm("alloc"), "Int", "(+ "+st.alloc+" 1)")
	if f.chanCap == nil {
		f.chanCap = map[ssa.Value]string{}
	}
	f.chanCap[x] = f.term(x.Size)
	return &Val{T: r}
}

func (f *Frame) capOf(k ssa.Value) string {
	if c, ok := f.chanCap[k]; ok {
		return c
	}
	if al, ok := k.(*ssa.Alloc); ok {
		if refs := al.Referrers(); refs != nil {
			for _, r := range *refs {
				if st, ok := r.(*ssa.Store); ok && st.Addr == ssa.Value(al) {
					if mc, ok := st.Val.(*ssa.MakeChan); ok {
						if c, ok := f.chanCap[mc]; ok {
							return c
						}
					}
				}
			}
		}
	}
	return ""
}

// goStmt: `go fn(args)`. The goroutine's effects are not visible here; what is
// recorded is which channels it produces on, with the producer's contract bound
// to the values at this point.
func (f *Frame) goStmt(x *ssa.Go, at string, st *State) {
	vc := f.vc
	c := x.Common()
	var fn *ssa.Function
	var fvs []*Val
	switch v := c.Value.(type) {
	case *ssa.Function:
		fn = v
	case *ssa.MakeClosure:
		fn = v.Fn.(*ssa.Function)
		for _, b := range v.Bindings {
			fvs = append(fvs, f.val(b))
		}
	default:
		if fv := f.val(c.Value); fv.Fn != nil {
			fn, fvs = fv.Fn, fv.FV
		}
	}
	if fn == nil {
		panic(unsupported{"go statement with an unknown function"})
	}
	con := vc.SS.Contracts[canonName(fn)]
	if con == nil {
		panic(unsupported{"go " + canonName(fn) + ": the goroutine body has no contract"})
	}
	vc.usedAssumptions["goroutine "+canonName(fn)+": its writes are not visible to the spawning function before a receive; interleavings are not modelled (producer/consumer rule)"] = true
	names := map[string]*specBinding{}
	for i, p := range fn.Params {
		if i < len(c.Args) {
			nm := p.Name()
			if i < len(con.Params) {
				nm = con.Params[i]
			}
			if v := f.val(c.Args[i]); v.T != "" {
				names[nm] = &specBinding{V: vc.sv(v.T, p.Type())}
			}
		}
	}
	for i, fv := range fn.FreeVars {
		if i < len(fvs) && fvs[i].T != "" {
			names[fv.Name()] = &specBinding{V: vc.sv(fvs[i].T, fv.Type()), Deref: true}
		}
	}
	// channels handed to the goroutine
	reg := func(name string, v ssa.Value) {
		spec := con.Chans[name]
		if spec == nil {
			return
		}
		k := chanKey(v)
		if f.chans == nil {
			f.chans = map[ssa.Value]*chanProd{}
		}
		f.chans[k] = &chanProd{key: k, fn: fn, con: con, spec: spec, names: names, pkg: fn.Pkg.Pkg, cap: f.capOf(k), label: name, pre: st.clone(), allocAt: st.alloc}
	}
	for i, p := range fn.Params {
		if i < len(c.Args) && isChanType(p.Type()) {
			nm := p.Name()
			if i < len(con.Params) {
				nm = con.Params[i]
			}
			reg(nm, c.Args[i])
		}
	}
	if mc, ok := c.Value.(*ssa.MakeClosure); ok {
		for i, fv := range fn.FreeVars {
			if pt, ok := fv.Type().Underlying().(*types.Pointer); ok && isChanType(pt.Elem()) {
				reg(fv.Name(), mc.Bindings[i])
			}
		}
	}
	// the function holding a producer must not itself be left: requires of the goroutine
	env := &specEnv{vc: vc, pkg: fn.Pkg.Pkg, names: names, pre: st, cur: st, allocPre: st.alloc}
	for i, cl := range con.Requires {
		t, err := env.trBool(cl.Expr)
		if err != nil {
			panic(unsupported{fmt.Sprintf("contract of %s: requires %s: %v", canonName(fn), cl.Src, err)})
		}
		lab := cl.Label
		if lab == "" {
			lab = fmt.Sprintf("r%d", i)
		}
		vc.oblige("requires@callsite", "go:"+canonShort(fn)+":"+lab, at, t, vc.P.line(x.Pos()), cl.Src, vc.con.Serves)
	}
}

// registerReturnedChan: after a call to a function that returns a channel it
// created and handed to a goroutine, the caller becomes the consumer.
func (f *Frame) registerReturnedChan(call ssa.Value, callee *ssa.Function, argNames map[string]*specBinding, pre *State, allocAt string) {
	vc := f.vc
	if callee == nil || len(callee.Blocks) == 0 {
		return
	}
	for _, b := range callee.Blocks {
		for _, in := range b.Instrs {
			g, ok := in.(*ssa.Go)
			if !ok {
				continue
			}
			gc := g.Common()
			mcl, ok := gc.Value.(*ssa.MakeClosure)
			var fn *ssa.Function
			if ok {
				fn = mcl.Fn.(*ssa.Function)
			} else if fv, ok := gc.Value.(*ssa.Function); ok {
				fn = fv
			}
			if fn == nil {
				continue
			}
			con := vc.SS.Contracts[canonName(fn)]
			if con == nil {
				continue
			}
			for i, p := range fn.Params {
				if i >= len(gc.Args) || !isChanType(p.Type()) {
					continue
				}
				mk, ok := chanKey(gc.Args[i]).(*ssa.MakeChan)
				if !ok || !returnsValue(callee, mk) {
					continue
				}
				nm := p.Name()
				if i < len(con.Params) {
					nm = con.Params[i]
				}
				spec := con.Chans[nm]
				if spec == nil {
					continue
				}
				// the producer's captured variables are the callee's parameters of the same name
				names := map[string]*specBinding{}
				for _, fv := range fn.FreeVars {
					if b, ok := argNames[fv.Name()]; ok {
						names[fv.Name()] = b
					}
				}
				capTerm := ""
				if c, ok := mk.Size.(*ssa.Const); ok {
					capTerm = vc.constTerm(c)
				}
				if f.chans == nil {
					f.chans = map[ssa.Value]*chanProd{}
				}
				f.chans[call] = &chanProd{key: call, fn: fn, con: con, spec: spec, names: names, pkg: fn.Pkg.Pkg, cap: capTerm, label: canonShort(callee) + "()", pre: pre, allocAt: allocAt}
				vc.usedAssumptions["goroutine "+canonName(fn)+": its writes are not visible to the consumer before a receive; interleavings are not modelled (producer/consumer rule)"] = true
			}
		}
	}
}

func returnsValue(fn *ssa.Function, v ssa.Value) bool {
	for _, b := range fn.Blocks {
		for _, in := range b.Instrs {
			if r, ok := in.(*ssa.Return); ok {
				for _, x := range r.Results {
					if chanKey(x) == v {
						return true
					}
				}
			}
		}
	}
	return false
}

// receiveFrom models one receive: producer effects, a fresh value satisfying the
// channel invariant when ok, and the drained flag.
func (f *Frame) receiveFrom(p *chanProd, elemT types.Type, in ssa.Instruction, at string, st *State, hint string) (val, ok string) {
	vc := f.vc
	okT := vc.declare(f.nm(hint+"_ok"), "Bool")
	v := vc.declare(f.nm(hint+"_v"), vc.S.sortOf(elemT))
	if p == nil {
		vc.assume(at, vc.typeInv(v, elemT, st.alloc), "type invariant")
		return v, okT
	}
	// what the producer may have done since the last synchronisation
	eff := vc.P.effects(p.fn)
	env := &specEnv{vc: vc, pkg: p.pkg, names: p.names, pre: st.clone(), allocPre: st.alloc}
	env.cur = env.pre
	var locs []modLoc
	framed := !p.con.ModAny
	for _, me := range p.con.Modifies {
		func() {
			defer func() {
				if r := recover(); r != nil {
					if _, isSpec := r.(specErr); isSpec {
						framed = false
						return
					}
					panic(r)
				}
			}()
			locs = append(locs, env.lvalue(me)...)
		}()
	}
	f.havocComps(eff.list(vc), eff.all, locs, framed, at, st, "goroutine "+canonShort(p.fn))
	vc.assume(at, vc.typeInv(v, elemT, st.alloc), "type invariant")
	post := env.child()
	post.cur = st
	if p.pre != nil {
		// old(...) in a channel clause: the state in which the goroutine started
		post.pre, post.allocPre = p.pre, p.allocAt
	}
	post.names = map[string]*specBinding{}
	for k, b := range p.names {
		post.names[k] = b
	}
	if p.spec.Elem != "" {
		post.names[p.spec.Elem] = &specBinding{V: vc.sv(v, elemT)}
	}
	for _, cl := range p.spec.Yields {
		t, err := post.trBool(cl.Expr)
		if err != nil {
			panic(unsupported{fmt.Sprintf("chan %s of %s: yields %s: %v", p.spec.Name, canonName(p.fn), cl.Src, err)})
		}
		if p.spec.Elem != "" && exprUsesName(cl.Expr, p.spec.Elem) {
			vc.assume(at, implies(okT, t), "channel invariant of "+canonShort(p.fn)+"."+p.spec.Name)
		} else {
			// a clause about the state only: it also holds when the channel is seen
			// closed (the producer establishes it at its returns as well)
			vc.assume(at, t, "channel state invariant of "+canonShort(p.fn)+"."+p.spec.Name)
		}
	}
	final := "false"
	for _, cl := range p.spec.FinalIf {
		t, err := post.trBool(cl.Expr)
		if err != nil {
			panic(unsupported{fmt.Sprintf("chan %s of %s: final_if %s: %v", p.spec.Name, canonName(p.fn), cl.Src, err)})
		}
		final = or(final, t)
	}
	if !p.spec.Closes {
		// a producer that never closes: ok=false cannot be observed
		vc.assume(at, okT, "channel is never closed by its producer")
	}
	// ghost state: the producer is known to have finished sending
	st.heap[vc.ghostBool(p.drainedComp()).Name] = vc.define(f.nm(hint+"_drained"), "Bool", ite(okT, final, "true"))
	return v, okT
}

func (f *Frame) recv(x *ssa.UnOp, at string, st *State) *Val {
	p := f.chanOf(x.X)
	elemT := x.X.Type().Underlying().(*types.Chan).Elem()
	v, ok := f.receiveFrom(p, elemT, x, at, st, x.Name())
	if x.CommaOk {
		return &Val{Tup: []*Val{{T: v}, {T: ok}}}
	}
	return &Val{T: v}
}

// selectStmt: the index is chosen nondeterministically among the receive cases
// (and -1 for a non-blocking select); send cases are not supported.
func (f *Frame) selectStmt(x *ssa.Select, at string, st *State) *Val {
	vc := f.vc
	idx := vc.declare(f.nm(x.Name()+"_idx"), "Int")
	lo := "0"
	if !x.Blocking {
		lo = "(- 1)"
	}
	vc.assume(at, fmt.Sprintf("(and (<= %s %s) (< %s %d))", lo, idx, idx, len(x.States)), "select chooses one of its cases")
	res := []*Val{{T: idx}}
	okAny := vc.declare(f.nm(x.Name()+"_ok"), "Bool")
	res = append(res, &Val{T: okAny})
	// each receive case happens only if chosen: run it on a copy of the state under
	// the case condition and merge
	var conds []string
	var states []*State
	base := st.clone()
	noneCond := vc.define(f.nm(x.Name()+"_none"), "Bool", and(at, "(< "+idx+" 0)"))
	for i, s := range x.States {
		if s.Dir != types.RecvOnly {
			panic(unsupported{"select with a send case"})
		}
		cnd := vc.define(f.nm(fmt.Sprintf("%s_case%d", x.Name(), i)), "Bool", and(at, eq(idx, fmt.Sprint(i))))
		cs := base.clone()
		elemT := s.Chan.Type().Underlying().(*types.Chan).Elem()
		p := f.chanOf(s.Chan)
		// the drained flag lives in the case's copy of the state: the merge below
		// keeps it only for the case that was chosen
		v, ok := f.receiveFrom(p, elemT, x, cnd, cs, fmt.Sprintf("%s_r%d", x.Name(), i))
		vc.assume(cnd, eq(okAny, ok), "select: ok of the chosen case")
		res = append(res, &Val{T: v})
		conds = append(conds, cnd)
		states = append(states, cs)
	}
	conds = append(conds, noneCond)
	states = append(states, base)
	m := f.mergeStates(conds, states, "sel_"+x.Name())
	st.heap, st.alloc, st.epoch = m.heap, m.alloc, m.epoch
	return &Val{Tup: res}
}

// producerChan: in a goroutine body under contract, the spec of the channel a
// send targets (by the name of the parameter or captured variable).
func (f *Frame) producerChan(v ssa.Value) (*ChanSpec, string) {
	con := f.vc.topFrame.con
	if con == nil || con.Chans == nil {
		return nil, ""
	}
	k := chanKey(v)
	name := ""
	switch x := k.(type) {
	case *ssa.Parameter:
		name = x.Name()
		for i, p := range f.fn.Params {
			if p == x && i < len(con.Params) {
				name = con.Params[i]
			}
		}
	case *ssa.FreeVar:
		name = x.Name()
	}
	return con.Chans[name], name
}

func (vc *VC) ghostBool(name string) *Component {
	if c, ok := vc.S.comps[name]; ok {
		return c
	}
	c := &Component{Name: name, Sort: "Bool", VSort: "Bool", T: types.NewMap(types.Typ[types.Int], types.Typ[types.Bool])}
	vc.S.comps[name] = c
	vc.S.compOrder = append(vc.S.compOrder, name)
	return c
}

func (vc *VC) ghostInt(name string) *Component {
	if c, ok := vc.S.comps[name]; ok {
		return c
	}
	c := &Component{Name: name, Sort: "Int", VSort: "Int", T: types.NewMap(types.Typ[types.Int], types.Typ[types.Int])}
	vc.S.comps[name] = c
	vc.S.compOrder = append(vc.S.compOrder, name)
	return c
}

// ghost state of a producer: has a final value been sent / how many sends so far
func (f *Frame) sentFinalTerm(name string, st *State) string {
	c := f.vc.ghostBool("ChanFinal_" + name)
	if t, ok := st.heap[c.Name]; ok {
		return t
	}
	if st.epoch == 0 {
		return "false" // nothing sent at function entry
	}
	return f.vc.heapOf(st, c)
}

func (f *Frame) sentCountTerm(name string, st *State) string {
	c := f.vc.ghostInt("ChanCount_" + name)
	if t, ok := st.heap[c.Name]; ok {
		return t
	}
	if st.epoch == 0 {
		return "0"
	}
	return f.vc.heapOf(st, c)
}

func (f *Frame) sendStmt(x *ssa.Send, at string, st *State) {
	vc := f.vc
	spec, name := f.producerChan(x.Chan)
	if spec == nil {
		panic(unsupported{"send on a channel without a channel contract"})
	}
	v := f.term(x.X)
	elemT := x.Chan.Type().Underlying().(*types.Chan).Elem()
	names := map[string]*specBinding{}
	for k, b := range f.vc.topFrame.names {
		names[k] = b
	}
	if spec.Elem != "" {
		names[spec.Elem] = &specBinding{V: vc.sv(v, elemT)}
	}
	env := f.invEnv(names, st)
	// sends are named by their ordinal among the function's send statements
	k := 0
	for _, b := range f.fn.Blocks {
		for _, in := range b.Instrs {
			if sd, ok := in.(*ssa.Send); ok {
				if sd == x {
					goto found
				}
				k++
			}
		}
	}
found:
	label := fmt.Sprintf("%s@send%d", name, k)
	for i, cl := range spec.Yields {
		t, err := env.trBool(cl.Expr)
		if err != nil {
			vc.specError(fmt.Sprintf("chan %s yields %s: %v", name, cl.Src, err), cl)
			continue
		}
		vc.oblige("chan/yields", fmt.Sprintf("%s#%d", label, i), at, t, vc.P.line(x.Pos()), cl.Src, vc.con.Serves)
	}
	if len(spec.Sends) > 0 {
		// producer-only clauses may mention local variables in scope at the send
		lnames := f.namesAt(x.Block(), names)
		lenv := f.invEnv(lnames, st)
		for i, cl := range spec.Sends {
			t, err := lenv.trBool(cl.Expr)
			if err != nil {
				// a local the clause needs is not in scope at this send. For a clause
				// "A ==> B" whose A is expressible, the send is fine if A is false;
				// otherwise the clause cannot be established here.
				goal := "false"
				if cl.Expr.Op == "bin" && cl.Expr.Name == "==>" {
					if a, aerr := lenv.trBool(cl.Expr.Args[0]); aerr == nil {
						goal = not(a)
					}
				}
				vc.oblige("chan/sends", fmt.Sprintf("%s#%d", label, i), at, goal, vc.P.line(x.Pos()), cl.Src+" (consequent not expressible at this send: "+err.Error()+")", vc.con.Serves)
				continue
			}
			vc.oblige("chan/sends", fmt.Sprintf("%s#%d", label, i), at, t, vc.P.line(x.Pos()), cl.Src, vc.con.Serves)
		}
	}
	final := "false"
	for _, cl := range spec.FinalIf {
		t, err := env.trBool(cl.Expr)
		if err != nil {
			vc.specError(fmt.Sprintf("chan %s final_if %s: %v", name, cl.Src, err), cl)
			continue
		}
		final = or(final, t)
	}
	sf := f.sentFinalTerm(name, st)
	if len(spec.FinalIf) > 0 {
		vc.oblige("chan/no_send_after_final", label, at, not(sf), vc.P.line(x.Pos()), "nothing is sent after a final value", vc.con.Serves)
	}
	cb := vc.ghostBool("ChanFinal_" + name)
	st.heap[cb.Name] = vc.define(f.nm("sentfinal"), "Bool", or(sf, final))
	cnt := f.sentCountTerm(name, st)
	if spec.AtMost > 0 {
		vc.oblige("chan/sends_at_most", label, at, fmt.Sprintf("(< %s %d)", cnt, spec.AtMost), vc.P.line(x.Pos()), fmt.Sprintf("at most %d sends", spec.AtMost), vc.con.Serves)
	}
	ci := vc.ghostInt("ChanCount_" + name)
	st.heap[ci.Name] = vc.define(f.nm("sentcount"), "Int", "(+ "+cnt+" 1)")
}

// ---- defer ---------------------------------------------------------------------

type deferred struct {
	in   *ssa.Defer
	cond string
}

func (f *Frame) deferCall(x *ssa.Defer, at string, st *State) {
	f.defers = append(f.defers, deferred{x, at})
}

func (f *Frame) runDefers(x *ssa.RunDefers, at string, st *State) {
	vc := f.vc
	for i := len(f.defers) - 1; i >= 0; i-- {
		d := f.defers[i]
		// the deferred call runs if its defer statement was executed on this path
		cond := vc.define(f.nm("deferred"), "Bool", and(at, d.cond))
		c := d.in.Common()
		if b, ok := c.Value.(*ssa.Builtin); ok {
			if b.Name() == "close" {
				_, name := f.producerChan(c.Args[0])
				if f.closed == nil {
					f.closed = map[string]string{}
				}
				f.closed[name] = or(f.closed[name], cond)
				continue
			}
			panic(unsupported{"deferred builtin " + b.Name()})
		}
		// other deferred calls: executed here (on a copy when conditional)
		var args []*Val
		for _, a := range c.Args {
			args = append(args, f.val(a))
		}
		switch callee := c.Value.(type) {
		case *ssa.Function:
			f.callStatic(d.in, callee, nil, args, cond, st)
		default:
			fv := f.val(c.Value)
			if fv.Fn != nil {
				f.callStatic(d.in, fv.Fn, fv.FV, args, cond, st)
			} else {
				f.callDynamic(d.in, c, fv, args, cond, st)
			}
		}
	}
}

// closeStmt: an explicit close(c) in a producer.
func (f *Frame) closeBuiltin(c *ssa.CallCommon, at string) {
	_, name := f.producerChan(c.Args[0])
	if f.closed == nil {
		f.closed = map[string]string{}
	}
	f.closed[name] = or(f.closed[name], at)
}

// chanAtReturn: obligations at a return statement.
//   producer:  chan/closes   every channel declared "closes" has been closed
//   consumer:  strand        every produced channel is drained or buffered enough
func (f *Frame) chanAtReturn(x *ssa.Return, at string, st *State) {
	vc := f.vc
	con := f.con
	ret := vc.retLabel(x)
	if con != nil {
		for _, name := range sortedKeys(con.Chans) {
			spec := con.Chans[name]
			// state-only yields clauses are assumed by the consumer also when it sees
			// the channel closed: they must hold at the producer's returns
			for i, cl := range spec.Yields {
				if spec.Elem != "" && exprUsesName(cl.Expr, spec.Elem) {
					continue
				}
				env := f.invEnv(vc.topFrame.names, st)
				t, err := env.trBool(cl.Expr)
				if err != nil {
					vc.specError(fmt.Sprintf("chan %s yields %s: %v", name, cl.Src, err), cl)
					continue
				}
				vc.oblige("chan/yields", fmt.Sprintf("%s@%s#%d", name, ret, i), at, t, vc.P.line(x.Pos()), cl.Src, con.Serves)
			}
			if !spec.Closes {
				continue
			}
			goal := "false"
			if c, ok := f.closed[name]; ok {
				goal = c
			}
			vc.oblige("chan/closes", name+"@"+ret, at, goal, vc.P.line(x.Pos()), "the channel is closed on every return", con.Serves)
		}
	}
	var keys []ssa.Value
	for k := range f.chans {
		keys = append(keys, k)
	}
	// deterministic order
	for i := range keys {
		for j := i + 1; j < len(keys); j++ {
			if keys[j].Name() < keys[i].Name() {
				keys[i], keys[j] = keys[j], keys[i]
			}
		}
	}
	for _, k := range keys {
		p := f.chans[k]
		// a channel that is returned to the caller is the caller's responsibility
		escapes := false
		for _, r := range x.Results {
			if chanKey(r) == k {
				escapes = true
			}
		}
		if escapes {
			continue
		}
		drained := vc.heapOf(st, vc.ghostBool(p.drainedComp()))
		buffered := "false"
		if p.cap != "" && p.spec.AtMost > 0 {
			buffered = fmt.Sprintf("(>= %s %d)", p.cap, p.spec.AtMost)
		}
		vc.oblige("strand", p.label+"@"+ret, at, or(drained, buffered), vc.P.line(x.Pos()),
			"no goroutine stays blocked forever: the producer "+canonShort(p.fn)+" has finished sending, or the buffer covers what it may still send", routeStrand(vc.con.Serves))
	}
}

// exprUsesName reports whether an expression mentions the identifier.
func exprUsesName(e *Expr, name string) bool {
	if e == nil {
		return false
	}
	if e.Op == "ident" && e.Name == name {
		return true
	}
	for _, a := range e.Args {
		if exprUsesName(a, name) {
			return true
		}
	}
	return false
}

// strand obligations belong to C11
func routeStrand(props []string) []string {
	for _, p := range props {
		if p == "C11" {
			return []string{"C11"}
		}
	}
	return props
}

// namesAt resolves local variable names at a program point in block b: the value
// of the last reference to the name in a block dominating b, and address-taken
// locals allocated in a dominating block. (A name bound to another value than the
// author meant cannot make a proof unsound: the clause is checked for that value.)
func (f *Frame) namesAt(b *ssa.BasicBlock, base map[string]*specBinding) map[string]*specBinding {
	vc := f.vc
	names := map[string]*specBinding{}
	for k, v := range base {
		names[k] = v
	}
	type lastRef struct {
		d   *ssa.DebugRef
		idx int
	}
	last := map[string]lastRef{}
	for _, blk := range f.fn.Blocks {
		if !blk.Dominates(b) {
			continue
		}
		for idx, in := range blk.Instrs {
			d, ok := in.(*ssa.DebugRef)
			if !ok || d.IsAddr {
				continue
			}
			id := identName(d)
			if id == "" {
				continue
			}
			l, seen := last[id]
			if !seen || l.d.Block().Dominates(blk) && (l.d.Block() != blk || l.idx < idx) {
				last[id] = lastRef{d, idx}
			}
		}
	}
	for n, l := range last {
		if _, isParam := l.d.X.(*ssa.Parameter); isParam {
			continue
		}
		if x, ok := f.env[l.d.X]; ok && x.T != "" {
			if _, dup := names[n]; !dup {
				names[n] = &specBinding{V: vc.sv(x.T, l.d.X.Type())}
			}
		} else if c, ok := l.d.X.(*ssa.Const); ok {
			if _, dup := names[n]; !dup {
				names[n] = &specBinding{V: vc.sv(vc.constTerm(c), c.Type())}
			}
		}
	}
	for _, blk := range f.fn.Blocks {
		for _, in := range blk.Instrs {
			if a, ok := in.(*ssa.Alloc); ok && a.Comment != "" && a.Block().Dominates(b) {
				if x, ok := f.env[a]; ok && x.T != "" {
					names[a.Comment] = &specBinding{V: vc.sv(x.T, a.Type()), Deref: true}
				}
			}
		}
	}
	return names
}
