package main

import (
	"flag"
	"fmt"
	"go/types"
	"os"
	"path/filepath"
	"sort"
	"strings"
	"time"
)

func loadSpecs(repo, verifDir string) (*SpecSet, error) {
	ss := newSpecSet()
	// assumed contracts and shared ghost vocabulary live in /verif/contracts
	specs, _ := filepath.Glob(filepath.Join(verifDir, "contracts", "*.spec"))
	sort.Strings(specs)
	for _, s := range specs {
		pkg := "biscuit"
		base := filepath.Base(s)
		for _, p := range []string{"datalog", "parser", "pb"} {
			if strings.HasPrefix(base, p+"_") || strings.HasPrefix(base, p+".") {
				pkg = p
			}
		}
		if err := ss.readSpecFile(s, pkg); err != nil {
			return nil, err
		}
	}
	for _, x := range []struct{ file, pkg string }{
		{"zz_contracts_verif.go", "biscuit"},
		{"datalog/zz_contracts_verif.go", "datalog"},
		{"parser/zz_contracts_verif.go", "parser"},
	} {
		p := filepath.Join(repo, x.file)
		if _, err := os.Stat(p); err != nil {
			continue
		}
		if err := ss.readSpecFile(p, x.pkg); err != nil {
			return nil, err
		}
	}
	return ss, nil
}

func serves(c *Contract, prop string) bool {
	if prop == "" || prop == "all" {
		return true
	}
	for _, p := range c.Serves {
		if p == prop {
			return true
		}
	}
	// a clause that names the property itself ([Cxx] tag) brings its function into that
	// property's check even when the function as a whole does not serve it: only the
	// tagged clauses (and the vacuity covers) are then reported there (filterProps)
	tagged := func(cls []Clause) bool {
		for _, cl := range cls {
			for _, p := range cl.Serves {
				if p == prop {
					return true
				}
			}
		}
		return false
	}
	return tagged(c.Ensures)
}

func main() {
	repo := flag.String("repo", "/repo", "repository under verification")
	verif := flag.String("verif", "/verif", "verification directory")
	prop := flag.String("prop", "all", "property id")
	tier := flag.String("tier", "quick", "quick|thorough")
	only := flag.String("fn", "", "only functions whose canonical name contains this")
	out := flag.String("out", "", "output directory for SMT files (default <verif>/out/<prop>)")
	jobs := flag.Int("j", 12, "parallel solver jobs")
	verbose := flag.Bool("v", false, "verbose")
	mode := flag.String("mode", "check", "check|table")
	flag.Parse()
	start := time.Now()
	P, err := loadProgram(*repo)
	if err != nil {
		fmt.Fprintln(os.Stderr, "load:", err)
		os.Exit(2)
	}
	SS, err := loadSpecs(*repo, *verif)
	if err != nil {
		fmt.Fprintln(os.Stderr, "spec:", err)
		os.Exit(2)
	}
	P.SS = SS
	G := analyseGlobals(P)
	if *out == "" {
		*out = filepath.Join(*verif, "out", *prop)
	}
	os.RemoveAll(*out)
	// every claimed obligation discharges in a few seconds on an idle machine; the
	// race timeout is generous so that a loaded machine (several checks at once)
	// does not turn a slow answer into an alarm
	timeout := 25 * time.Second
	if *tier == "thorough" {
		timeout = 90 * time.Second
	}
	seed := 0
	fmt.Sscan(os.Getenv("VERIF_SEED"), &seed)
	var results []*FuncResult
	var obls []*Obligation
	for _, name := range SS.Order {
		con := SS.Contracts[name]
		if con.Extern || con.Trusted || !serves(con, *prop) {
			continue
		}
		if *only != "" && !strings.Contains(name, *only) {
			continue
		}
		fn := P.ByName[name]
		if fn == nil {
			results = append(results, &FuncResult{Name: name, Con: con, Unsupported: "stale contract: no such function"})
			continue
		}
		r := verifyFunction(P, SS, G, fn, con)
		results = append(results, r)
		r.Obls = filterProps(r.Obls, *prop)
		obls = append(obls, r.Obls...)
	}
	// interface-method contracts: every implementing method must satisfy them
	for _, iname := range SS.IfaceOrder {
		con := SS.Ifaces[iname]
		if !serves(con, *prop) {
			continue
		}
		parts := strings.Split(iname, ".") // pkg.Iface.Method
		sp := P.SPkgs[parts[0]]
		if sp == nil || len(parts) != 3 {
			results = append(results, &FuncResult{Name: iname, Con: con, Unsupported: "stale contract: no such interface"})
			continue
		}
		tn, _ := sp.Pkg.Scope().Lookup(parts[1]).(*types.TypeName)
		if tn == nil {
			results = append(results, &FuncResult{Name: iname, Con: con, Unsupported: "stale contract: no such interface"})
			continue
		}
		named, ok := P.closedInterface(tn.Type())
		if !ok {
			results = append(results, &FuncResult{Name: iname, Con: con, Unsupported: "stale contract: not an interface of the module"})
			continue
		}
		for _, T := range P.implementors(named) {
			m := P.Prog.LookupMethod(T, sp.Pkg, parts[2])
			if m == nil && T != nil {
				// unexported method of another package
				for _, q := range P.SPkgs {
					if mm := P.Prog.LookupMethod(T, q.Pkg, parts[2]); mm != nil {
						m = mm
						break
					}
				}
			}
			if m != nil && m.Synthetic != "" {
				if pt, ok := T.(*types.Pointer); ok {
					if mm := P.Prog.LookupMethod(pt.Elem(), sp.Pkg, parts[2]); mm != nil && mm.Synthetic == "" {
						m = mm
					}
				}
			}
			if m == nil || len(m.Blocks) == 0 {
				results = append(results, &FuncResult{Name: iname + "@" + T.String(), Con: con, Unsupported: "implementing method not found"})
				continue
			}
			if *only != "" && !strings.Contains(canonName(m), *only) {
				continue
			}
			asIfaceType = tn.Type()
			r := verifyFunction(P, SS, G, m, con, "@as:"+parts[1])
			asIfaceType = nil
			results = append(results, r)
			r.Obls = filterProps(r.Obls, *prop)
			obls = append(obls, r.Obls...)
		}
	}
	// lemmas over the specification vocabulary (compositions of contracts)
	for _, lm := range SS.Lemmas {
		ok := *prop == "" || *prop == "all"
		for _, p := range lm.Serves {
			if p == *prop {
				ok = true
			}
		}
		if !ok || (*only != "" && !strings.Contains("lemma:"+lm.Name, *only)) {
			continue
		}
		r := verifyLemma(P, SS, G, lm)
		results = append(results, r)
		r.Obls = filterProps(r.Obls, *prop)
		obls = append(obls, r.Obls...)
	}
	// function-type contracts: every function of the module that is converted to
	// the named function type must satisfy the contract
	for _, tn := range sortedKeys(SS.FuncTypes) {
		con := SS.FuncTypes[tn]
		if !serves(con, *prop) {
			continue
		}
		con.Iface = true // same treatment as interface-method contracts (own loop invariants)
		for _, fn := range funcsOfType(P, tn) {
			if *only != "" && !strings.Contains(canonName(fn), *only) {
				continue
			}
			short := tn
			if i := strings.LastIndex(tn, "."); i >= 0 {
				short = tn[i+1:]
			}
			r := verifyFunction(P, SS, G, fn, con, "@as:"+short)
			results = append(results, r)
			r.Obls = filterProps(r.Obls, *prop)
			obls = append(obls, r.Obls...)
		}
	}
	genTime := time.Since(start)
	solveAll(obls, *out, timeout, seed, *jobs)
	if *mode == "check" {
		repoDir = *repo
		sweepEnabled = *tier == "thorough" && *only == ""
		code := report(*prop, *tier, seed, *verif, results, nil, nil, time.Since(start).Seconds(), genTime.Seconds(), nil, nil)
		os.Exit(code)
	}
	nOK, nFail := 0, 0
	for _, r := range results {
		fmt.Printf("== %s  (%d instrs, %d obligations)\n", r.Name, r.NInstr, len(r.Obls))
		if r.Unsupported != "" {
			fmt.Printf("   OUTSIDE SUBSET: %s\n", r.Unsupported)
		}
		for _, e := range r.SpecErrs {
			fmt.Printf("   SPEC ERROR: %s\n", e)
		}
		if *verbose {
			for _, n := range r.Notes {
				fmt.Printf("   note: %s\n", n)
			}
		}
		for _, o := range r.Obls {
			res := o.Result
			ok := res.Status == "discharged" || res.Status == "undecided-cover"
			if ok {
				nOK++
			} else {
				nFail++
			}
			if !ok || *verbose {
				fmt.Printf("   %-12s %-8s %-11s %5.2fs  %s  [%s]\n", res.Status, res.Answer, res.Solver, res.Seconds, o.Name, o.Pos)
				if !ok && res.Answer == "error" {
					fmt.Printf("      %s\n", strings.ReplaceAll(firstLines(res.Output, 6), "\n", "\n      "))
				}
			}
		}
	}
	fmt.Printf("functions=%d obligations=%d ok=%d failed=%d gen=%.1fs total=%.1fs\n", len(results), len(obls), nOK, nFail, genTime.Seconds(), time.Since(start).Seconds())
}

func firstLines(s string, n int) string {
	ls := strings.Split(s, "\n")
	if len(ls) > n {
		ls = ls[:n]
	}
	return strings.Join(ls, "\n")
}

// filterProps keeps the obligations that serve the property (vacuity covers are
// always kept).
func filterProps(obls []*Obligation, prop string) []*Obligation {
	if prop == "" || prop == "all" {
		return obls
	}
	var out []*Obligation
	for _, o := range obls {
		keep := o.Expect == "sat"
		for _, p := range o.Props {
			if p == prop {
				keep = true
			}
		}
		if keep {
			out = append(out, o)
		}
	}
	return out
}
