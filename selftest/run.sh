#!/bin/bash
# Must-fail corpus: every patch in selftest/mutants must (a) compile, (b) pass the
# repository's own tests, (c) make the named check exit 1 with a VIOLATION line that
# mentions the expected obligation. Harmless edits in selftest/harmless must leave
# the named check at exit 0. Patches are applied to /repo's working tree and
# reverted straight afterwards.
#   run.sh [pattern]           pattern filters patch names
export GOFLAGS=-mod=mod GOPROXY=off GOSUMDB=off GOTOOLCHAIN=local
V=/verif; pat="${1:-}"; fail=0; n=0; det=0
if [ -n "$(git -C /repo status --porcelain)" ]; then echo "selftest: /repo working tree is not clean"; exit 2; fi
# evidence files describe the unchanged tree: put them back afterwards (a run on a mutated
# tree leaves a record with undischarged obligations)
save=$(mktemp -d /var/tmp/evidence-save.XXXXXX); cp -a $V/evidence/. "$save"/
trap 'cp -a "$save"/. $V/evidence/; rm -rf "$save"' EXIT
for p in $V/selftest/mutants/*.patch; do
  name=$(basename $p .patch); [[ "$name" == *"$pat"* ]] || continue
  read prop expect < $V/selftest/mutants/$name.expect
  n=$((n+1)); note=""
  git -C /repo apply $p || { echo "MUTANT $name: patch does not apply"; fail=1; continue; }
  ok=1
  (cd /repo && go build ./... >/dev/null 2>&1) || { echo "MUTANT $name: does not compile"; ok=0; }
  if [ $ok = 1 ] && [ -z "${SELFTEST_SKIP_TESTS:-}" ]; then
    (cd /repo && (go test -vet=off -count=1 -p 1 ./... >/dev/null 2>&1 || go test -vet=off -count=1 -p 1 ./... >/dev/null 2>&1)) || note=" [also killed by the repository's tests: engine canary only]"
  fi
  if [ $ok = 1 ]; then
    out=$($V/bin/check $prop quick 2>&1); code=$?
    if [ $code = 1 ] && echo "$out" | grep "^VIOLATION property=$prop " | grep -q -- "$expect"; then
      det=$((det+1)); echo "MUTANT $name: detected by $prop ($(echo "$out" | grep -c '^VIOLATION') violation lines)$note"
    else
      echo "MUTANT $name: SURVIVED $prop (exit $code)"; echo "$out" | grep '^VIOLATION' | head -3; fail=1
    fi
  else fail=1; fi
  git -C /repo checkout -- . ; git -C /repo clean -fdq
done
for p in $V/selftest/harmless/*.patch; do
  [ -e "$p" ] || continue
  name=$(basename $p .patch); [[ "$name" == *"$pat"* ]] || continue
  read prop expect < $V/selftest/harmless/$name.expect
  git -C /repo apply $p || { echo "HARMLESS $name: patch does not apply"; fail=1; continue; }
  out=$($V/bin/check $prop quick 2>&1); code=$?
  if [ $code = 0 ]; then echo "HARMLESS $name: stays green on $prop"; else echo "HARMLESS $name: FALSE ALARM on $prop"; echo "$out" | grep '^VIOLATION' | head -3; fail=1; fi
  git -C /repo checkout -- . ; git -C /repo clean -fdq
done
echo "selftest: $det/$n mutants detected"
exit $fail
