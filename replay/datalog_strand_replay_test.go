package datalog

// Replay templates for the stranding obligations of property C11 (kind
// "strand"): they have no solver model — the failing input is a schedule — so
// the template builds the smallest program that takes the return the obligation
// names and then inspects the goroutine dump of the REAL code.

import (
	"fmt"
	"runtime"
	"strings"
	"testing"
	"time"
)

// govcBlockedIn counts goroutines whose stack contains fn and that are blocked
// in a channel send.
func govcBlockedIn(fn string) int {
	buf := make([]byte, 1<<20)
	n := runtime.Stack(buf, true)
	cnt := 0
	for _, g := range strings.Split(string(buf[:n]), "\n\n") {
		if strings.Contains(g, fn) && strings.Contains(strings.SplitN(g, "\n", 2)[0], "chan send") {
			cnt++
		}
	}
	return cnt
}

// govcStaysBlocked: the goroutine is still blocked in the same send after the
// function that started it has returned and time has passed (nothing can ever
// receive: the channel is unreachable from the caller).
func govcStaysBlocked(fn string) bool {
	for i := 0; i < 3; i++ {
		time.Sleep(100 * time.Millisecond)
		if govcBlockedIn(fn) == 0 {
			return false
		}
	}
	return true
}

// Rule.Apply returns InvalidRuleError (head variable not bound by the body) on
// the first combination; with two or more combinations the producer started by
// combine() is left blocked on its second send.
func TestGovcReplayStrandApply(t *testing.T) {
	syms := &SymbolTable{}
	p := syms.Insert("p")
	q := syms.Insert("q")
	facts := &FactSet{}
	facts.Insert(Fact{Predicate{Name: p, Terms: []Term{Integer(1)}}})
	facts.Insert(Fact{Predicate{Name: p, Terms: []Term{Integer(2)}}})
	rule := Rule{
		Head: Predicate{Name: q, Terms: []Term{Variable(7)}}, // $7 does not occur in the body
		Body: []Predicate{{Name: p, Terms: []Term{Variable(0)}}},
	}
	before := govcBlockedIn("datalog.combine.func1")
	newFacts := &FactSet{}
	err := rule.Apply(facts, newFacts, syms)
	if _, ok := err.(InvalidRuleError); !ok {
		fmt.Printf("NOT-REPRODUCED: Apply returned %v, expected InvalidRuleError\n", err)
		return
	}
	if govcStaysBlocked("datalog.combine.func1") && govcBlockedIn("datalog.combine.func1") > before {
		fmt.Printf("REPRODUCED: after Rule.Apply returned %q a goroutine running datalog.combine.func1 stays blocked in a channel send (facts p(1), p(2); rule q($7) <- p($0))\n", err.Error())
		t.Fail()
		return
	}
	fmt.Println("NOT-REPRODUCED: no goroutine of combine is left blocked after Apply returned")
}

// World.Run returns ErrWorldRunLimitTimeout when the deadline passes; the
// goroutine running the fixpoint loop then sends its verdict on an unbuffered
// channel nobody reads any more.
func TestGovcReplayStrandRun(t *testing.T) {
	for _, n := range []int{150, 300, 600} {
		for _, d := range []time.Duration{200 * time.Microsecond, time.Millisecond, 5 * time.Millisecond} {
			syms := &SymbolTable{}
			p := syms.Insert("p")
			q := syms.Insert("q")
			// one iteration only: the loop falls through to the final send
			w := NewWorld(WithMaxDuration(d), WithMaxIterations(1), WithMaxFacts(1<<30))
			for i := 0; i < n; i++ {
				w.AddFact(Fact{Predicate{Name: p, Terms: []Term{Integer(i)}}})
			}
			// q(x, y) <- p(x), p(y): n*n combinations, long enough for the deadline to pass
			w.AddRule(Rule{
				Head: Predicate{Name: q, Terms: []Term{Variable(0), Variable(1)}},
				Body: []Predicate{{Name: p, Terms: []Term{Variable(0)}}, {Name: p, Terms: []Term{Variable(1)}}},
			})
			before := govcBlockedIn("datalog.(*World).Run.func1")
			err := w.Run(syms)
			if err != ErrWorldRunLimitTimeout {
				continue
			}
			// wait for the goroutine to finish its iteration
			deadline := time.Now().Add(20 * time.Second)
			for time.Now().Before(deadline) && govcBlockedIn("datalog.(*World).Run.func1") <= before {
				time.Sleep(20 * time.Millisecond)
			}
			if govcBlockedIn("datalog.(*World).Run.func1") > before && govcStaysBlocked("datalog.(*World).Run.func1") {
				fmt.Printf("REPRODUCED: after World.Run returned %q the goroutine running the fixpoint loop stays blocked sending its verdict (facts p(0..%d), rule q($0,$1) <- p($0), p($1), maxDuration %v, maxIterations 1)\n", err.Error(), n-1, d)
				t.Fail()
				return
			}
		}
	}
	fmt.Println("NOT-REPRODUCED: no goroutine of World.Run is left blocked after a timeout")
}
