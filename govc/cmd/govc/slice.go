package main

import "golang.org/x/tools/go/ssa"

// Control-flow slicing of assumptions: a fact that arose in top-frame block X is
// given to an obligation in block Y only if X reaches Y in the loop-cut CFG.
// Dropping assumptions can only make an obligation harder to prove, never
// easier, so the slicing is sound; it keeps queries small.

func (vc *VC) computeReach(f *Frame) {
	vc.reach = map[[2]int]bool{}
	// order is a topological order of the DAG: propagate predecessors forward
	preds := map[int]map[int]bool{}
	for _, b := range f.order {
		set := map[int]bool{b.Index: true}
		for _, p := range b.Preds {
			if f.backEdge[[2]int{p.Index, b.Index}] {
				continue
			}
			for x := range preds[p.Index] {
				set[x] = true
			}
		}
		preds[b.Index] = set
		for x := range set {
			vc.reach[[2]int{x, b.Index}] = true
		}
	}
	_ = ssa.BasicBlock{}
}

func (vc *VC) relevant(fact Fact, o *Obligation) bool {
	if fact.Blk < 0 || o.Blk < 0 || vc.reach == nil {
		return true
	}
	return vc.reach[[2]int{fact.Blk, o.Blk}]
}

// loopFrame: a loop with its own modifies clause. Inside it, writes are checked
// against the loop's frame: the target is in locs or was allocated after the
// loop was entered (>= bound).
type loopFrame struct {
	li    *loopInfo
	locs  []modLoc
	bound string
}

// setCurLoopFrame selects the innermost loop frame containing block b.
func (vc *VC) setCurLoopFrame(b *ssa.BasicBlock) {
	vc.curLoopFrame = nil
	for _, lf := range vc.loopFrames {
		if lf.li.blocks[b] {
			if vc.curLoopFrame == nil || len(lf.li.blocks) < len(vc.curLoopFrame.li.blocks) {
				vc.curLoopFrame = lf
			}
		}
	}
}

// frameCtx: the modifies set and the allocation bound that writes are currently
// checked against.
func (vc *VC) frameCtx() ([]modLoc, string) {
	if vc.curLoopFrame != nil {
		return vc.curLoopFrame.locs, vc.curLoopFrame.bound
	}
	return vc.topFrame.modLocs, "alloc0"
}
