#!/bin/bash
# try-all-seeded.sh   re-run every seeded change against the check of the property it
# was seeded for (first C-id in the directory name); prints one line per change.
cd /verif
for d in seeded/*/; do
  name=$(basename $d); prop=${name:0:3}
  patch=$d/patch.diff; [ -f $d/patch-rebased.diff ] && patch=$d/patch-rebased.diff
  out=$(tools/try-seeded.sh /verif/$patch $prop 2>&1)
  if echo "$out" | grep -q "^== $prop exit=1"; then
    echo "CAUGHT   $name by $prop: $(echo "$out" | grep '^VIOLATION' | head -1 | sed 's/.*obligation=//' | cut -c1-110)"
  else
    echo "MISSED   $name ($prop): $(echo "$out" | tail -1 | cut -c1-120)"
  fi
done
