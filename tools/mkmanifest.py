#!/usr/bin/env python3
"""Regenerates /verif/MANIFEST.json from the table below (kept in one place so the
file stays valid). Run: python3 tools/mkmanifest.py"""
import json, subprocess

T = "contract-based deductive verification (govc: weakest preconditions over go/ssa, z3/cvc5)"
CLAIMED = {
 "C01": dict(
   text="Proof: authorizerFor (the only path from a token to an authorizer) is under a contract stating acceptance <=> root-signed authority link, every later link under the previously announced key, and the closing proof (next secret matching the last announced key, or seal signature over the last block); the loop invariant carries the chain; newBiscuit and Append are proved to produce exactly such links (payload = block bytes, le32(algorithm), next key).",
   note="Assumed: ed25519 (uninterpreted edVerify/edSign/key derivation with sign-then-verify correctness; EUF-CMA unforgeability is not expressible as a contract), proto.Marshal, binary.PutUint32 (contracts/extern_crypto.spec); wfToken as established by Unmarshal (its decode-side contract is part of C10). Not decided: mutation rejection beyond the iff (it follows from the iff plus EUF-CMA).",
   technique=T, ref="4/C01"),
 "C03": dict(
   text="Proof (partial) by write frames inside Authorize: the per-block loop is proved to write neither the working world's fact set (cell and visible elements) nor its rules - every block's facts and rules go into a private clone created for that block (World.Clone is proved to return fresh cells; the clone may share the fact array, and is proved to write only beyond the working world's length). Authorizer checks, authority checks and policies are evaluated before that loop; Query is proved to read the working world only. Because World.Clone shares term storage between the working world and the block worlds, the datalog evaluation functions (Run, QueryRule, Apply, combine, Evaluate, set intersection/union, fact insertion, variable binding) also serve this property: their read-only frames and freshly allocated results are part of the isolation argument.",
   note="Not decided: the converse direction as a postcondition (authority and authorizer facts are visible in every block world: follows from World.Clone's same_facts but is not stated on Authorize), and identity of outcomes with/without a block's facts (a relational statement over two runs: outside one-call contracts).",
   technique=T, ref="4/C03"),
 "C04": dict(
   text="Proof (partial): Authorize is under contract with invariants for all 14 loops; proved: a nil result requires a matched allow policy (err == nil ==> some policy of kind allow exists and the policy loop set the verdict from the first matching policy), a failing or limited run is returned as the error, a nil result implies the fact count is below the limit, and check failure takes precedence: every return statement that hands out the policy verdict (the first matching policy's result, or 'no matching policy') is proved to be reached only when no check has failed and one block world per block has been evaluated, wherever such a return stands in the function; and every check is evaluated by running its queries every time (structural clauses on the control-flow graph: each completed iteration of a check loop passes through its query loop, each block's iteration through that block's check loop).",
   note="Not decided: the full decision procedure as a postcondition (every check has a satisfied query in its scope <=> no check error): it needs a specification-level definition of 'query satisfied in scope', i.e. the Datalog semantics of C05, which is not available as a contract. Error message contents are not specified.",
   technique=T, ref="4/C04"),
 "C05": dict(
   text="Proof (partial). Leaves with full functional contracts: Term.Equal (all 7 implementations against one interface contract), Predicate.Equal/Match/Clone, FactSet.Insert/InsertAll (set semantics, no-growth => subset), advanceIndexes (lexicographic successor with carry), MatchedVariables Insert/Complete/Clone, World AddFact/AddRule/ResetRules/Clone. Join soundness: the rule-application goroutine is proved to send only bindings that unify every variable position of every body predicate with the fact chosen for it (first occurrence binds, later occurrences passed Term.Equal), and that every fact chosen for a body predicate matches it in name, arity and every constant position (matched invariants over the odometer, carried across advanceIndexes by its successor contract; channel clause at every send). Fixpoint step: a nil verdict is sent only when an iteration added no fact. The enumeration's stop reasons are under contract per return statement (no fact at all; odometer exhausted with the first index at the last fact; after an error was sent; no predicate). Derivation soundness at the level of heads: Rule.Apply only adds instances of the rule's head (same name and arity, constants of the head in place) and keeps what the target set held; QueryRule's answers are instances of the query's head; FactSet.InsertAll only adds elements of its argument; World.Run is proved to keep every initial fact in place and to add only instances of the head of some rule of the world (only_derived_facts_are_added) unless it returns the timeout error.",
   note="Rule.Apply, combine$1, World.Run/Run$1 and QueryRule are also under contract for well-formedness and frames (the source fact set is never written; new facts only grow). Not decided: completeness of the enumeration between start and exhaustion (every matching combination is produced - a statement over the whole sequence of channel values, which the producer/consumer rule does not carry; the thorough tier cross-checks it on the real code against a brute-force reference over a small corpus), that expressions filter exactly (Evaluate's full semantics), and minimality of the model.",
   technique=T, ref="4/C05"),
 "C06": dict(
   text="Proof: every Eval of the operator table, Evaluate, the evaluation stack and the symbol-table functions they use are under contract; each row of the table is an ensures clause discharged for all operand values (64-bit wrap modelled exactly), together with every panic site (nil, index, type assertion, division, unhashable map key) in those functions. All 20 operator implementations are also verified against the interface-method contracts used by Evaluate.",
   note="Assumed: contracts of math/big, strings, regexp, fmt, bytes (contracts/extern.spec); closed world for datalog.Term/Op; regex and substring semantics uninterpreted. Set intersection and union are proved sound and complete (every common element / every element of either operand occurs in the result). Not decided: Evaluate's full postfix semantics as one statement (well-formedness, error cases, stack discipline and one-element expressions are proved; the value of a longer sequence is the composition of the proved operator rows, which is not stated as a single obligation).",
   technique=T, ref="4/C06"),
 "C07": dict(
   text="Proof (partial): both converter directions (token <-> wire, 19 functions) are under contract row by row (term kinds and tags, operator codes, totality on well-formed content, fresh results, no writes to existing memory); the builder-level value layer (types.go: convert and fromDatalog for terms, predicates, expressions, rules, checks) likewise (each operator and term kind maps to its counterpart, strings resolve to the inserted symbol); symbol-table Insert/Str/Var/Clone/Extend/IsDisjoint/SplitOff have full functional contracts (default table below 1024, offsets, prefix preservation); Unmarshal is proved to produce a well-formed token or an error; the block builder is proved to emit only the new symbols and the facts, rules and checks it was given, with version 3. Structure is under contract too (wire relations scalarEnc/termEnc/predEnc/opEnc/exprEnc/ruleEnc/checkEnc/blockEnc): every token-to-wire converter is proved to write exactly one wire element per element of its input, in order, carrying the name, the term kind and payload, the operator code, head/body/expressions, and the block header (symbols, context, version); every wire-to-token converter (term, predicate, fact, operation, expression, rule, check, block) is proved against the converse relations (scalarDec/termDec/predDec/opDec/exprDec/ruleDec/checkDec/blockDec). Round-trip lemmas over the two families of relations are proved from the definitions: scalar_round_trip (a scalar term written and read back is the same value), set_round_trip (a set is read back with the same elements in the same order), scalar_predicate_round_trip (name, arity and every scalar term of a predicate).",
   note="Assumed: protobuf encode/decode. Not decided: the round trip above predicates as a lemma (for expressions, rules, checks and blocks decode(encode(x)) == x is the composition of the proved enc/dec relations level by level; the lemmas stop at predicates with scalar terms and at sets), the binary-operator round trip needs injectivity of the code table in both directions (each direction is proved row by row), dates (time.Time is opaque), and dangling symbol indices (printed as a placeholder, not rejected).",
   technique=T, ref="4/C07"),
 "C08": dict(
   text="Proof (partial): Append and Seal are proved to write nothing that existed before the call (strict frame: every store, map update, in-place append and callee effect is an obligation against 'modifies nothing'), SymbolTable.Clone is proved to own a fresh backing array, and the new token's envelope is proved to carry the parent's signed blocks unchanged.",
   note="Also proved: Append refuses a block whose symbol table overlaps the token's; CreateBlock hands the block builder a private clone of the symbol table, block-builder methods write only builder-owned memory, Build returns a block that shares no array with the builder, GetBlockID and Serialize write nothing, Authorize writes only the authorizer. Printing (Biscuit.String/Code, Block.String/Code and the datalog debugger) is proved read-only.",
   technique=T, ref="4/C08"),
 "C09": dict(
   text="Proof (partial): Seal is proved to keep the envelope (same authority block and signed blocks, same root key id), to copy block contents and symbols unchanged, to replace the proof by a signature of exactly the seal payload of the last block under the held next secret (so the closing proof verifies whenever the parent's did: seal_verifies), and both Seal and Append are proved to refuse a token without a next secret (sealed) with an error and no token. The lemma same_envelope_same_chain (proved from the definitions) turns 'same envelope' into 'the chain verifies under the same root key'; with authorizerFor's accept <=> chain-and-proof contract the sealed token is accepted exactly when its parent was.",
   note="Assumed: ed25519 sign-then-verify, protobuf round trip (so 'still holds after serialization' rests on the assumed Marshal/Unmarshal contract). Premise of seal_verifies: the last block's algorithm number is non-negative (it is 0 for every token that verifies). Not decided: 'same authorization outcome for every authorizer' as one statement (it is the composition of content_same with Authorize reading only that content - a relational statement); rejection of an altered seal follows from the iff of C01 plus unforgeability, which no contract expresses.",
   technique=T, ref="4/C09"),
 "C10": dict(
   text="Proof: a panic-freedom sweep over every function under contract (about 230 functions: datalog engine incl. its goroutines, expressions, symbol table, printing, converters both directions, Unmarshal, token construction/Append/Seal, builders, authorizer incl. Authorize/Query/LoadPolicies/SerializePolicies, parser conversion layer): each nil dereference, index, slice bound, type assertion, division, unhashable map key, nil map write, explicit panic and panicking library precondition (ed25519 key/seed lengths) is an obligation proved under the invariants that decoding and the builders establish (wfToken, blockWF, termWF...).",
   note="Not covered: experiments package, the MustParser wrappers (they panic by design), FactSet.String/Set.String of package biscuit. Out-of-memory and stack depth are not panics a contract can see. Dependencies are trusted to satisfy their assumed contracts.",
   technique=T, ref="4/C10"),
 "C11": dict(
   text="Proof (producer/consumer rule): the goroutine bodies combine$1 and World.Run$1 are under contract with channel clauses (every sent value satisfies the channel invariant, nothing is sent after a final value, at most one verdict, channel closed on return); Rule.Apply and World.Run are proved against them, with a stranding obligation at every return (the producer is known to have finished, or the buffer covers what it may still send). World.Run's nil verdict is proved to be sent only when an iteration added nothing and the fact count is below the limit; limit plumbing: WithWorldOptions/NewVerifier/AuthorizerFor/Authorizer are proved to hand the caller's options to every world, World.Clone keeps them, and every authorizer method (Add*, AddBlock, AddAuthorizer, Reset, Authorize, Query, SerializePolicies, LoadPolicies) is proved to leave the configured limits of the working and the base world as they were (limits_kept).",
   note="Interleavings are not modelled: a goroutine body is verified as a sequential function and the consumer sees its effects only at receives (sound for the clauses used: they talk about sent values and monotone state). Wall-clock behaviour of the deadline is context.WithTimeout's assumed contract. Authorize and Query are proved to return an error when the run fails (a nil result implies the fact count is below the limit); that the error keeps its identity (errors.Is with the exported sentinel) on its way through Authorize is not expressible as a postcondition and is cross-checked on the real code by the thorough tier only.",
   technique=T, ref="4/C11"),
 "C13": dict(
   text="Proof: Reset is proved to install fresh clones of the base world and base symbol table (same facts, rules, limits, symbols) with empty check and policy lists; Authorize, Query, AddFact, AddRule, AddCheck, AddPolicy are proved (strict write frames) never to write the base world, the base symbol table or their visible contents; the authorizer invariant (working state separate from base state and from the token's own arrays) is proved to be established by the constructors and preserved by every method under contract.",
   note="LoadPolicies/loadPoliciesV2, SerializePolicies and PrintWorld are under contract and proved not to write the base snapshot. The AddBlock/AddAuthorizer convenience wrappers are under contract too (they keep the authorizer invariant and the base snapshot). 'behaves exactly like a new authorizer' is decided as state equality of what Reset installs with what the constructor installs (both are clones of the same base state), not as a relational statement over runs.",
   technique=T, ref="4/C13"),
 "C14": dict(
   text="Proof (partial) for the conversion layer between participle's syntax tree and the values the library works with: Term.ToBiscuit row by row (integer, string, variable, bool, set without variables, parameter substituted or 'unbound parameter' error, value or error never both), the date row (a date literal is accepted exactly when time.Parse accepts it under the RFC 3339 layout - ghost predicate on the assumed contract of time.Parse) and the bytes row, the operator spelling table (text of the operator token -> operator constant, 19 rows proved from the map literal, which is checked to be a constant table), the operator table at each precedence level (every level appends exactly its own operators: || ; && ; comparisons ; + - ; * / ; methods), negation and parentheses appended after their operand (postfix order of each node), 'or' as alternative queries (one rule per alternative), allow/deny kinds, 'query' heads, facts without variables, every flattened expression checked for unconverted operands (the repaired defect), and panic freedom of all functions of the layer, of participle's capture hooks (Comment, Variable, Parameter, Bool, Operator) and of the twelve entry points (with and without parameters).",
   note="Assumed, not proved: participle itself - lexing (including the token table of regular expressions handed to it; the thorough tier cross-checks a corpus of spellings and layouts on the real parser), the grammar's precedence and associativity as encoded in the struct tags, and the shape of the tree it returns (required captures and elements of repeated captures are non-nil: 'assumes' clauses and the extern contract of ParseString). So 'denotes exactly the documented grammar' is decided only from the tree downwards; the postfix order of a whole expression is decided per node (each node appends its operands' output then its own operator), not as one statement over the flattened sequence.",
   technique=T, ref="4/C14"),
 "C16": dict(
   text="Proof: the key-selection closures are proved against the statement (id present and registered -> that key; id present and unknown -> ErrNoPublicKeyAvailable, never the default; no id -> default or the error); newBiscuit stores the identifier given by the options; Append and Seal are proved to carry the parent's identifier (value semantics of *uint32).",
   note="Assumed: protobuf keeps the optional field across serialisation. Not yet under contract: AuthorizerFor's use of the selected key and Build's passing of the option (planned).",
   technique=T, ref="4/C16"),
 "C17": dict(
   text="Proof (partial): RevocationIds is proved to return exactly one identifier per block, in order: the authority block's signature followed by each later block's signature as stored in the signed envelope (the bytes an independent decoder finds there); Append and Seal are proved to keep the parent's signed blocks (same objects, never written), so a derived token's identifiers begin with the parent's.",
   note="Not decided: uniqueness of identifiers of blocks signed at different times - it rests on the freshness of the per-block key pair and the signature scheme, which contracts over uninterpreted ed25519 cannot express. Stability across serialization is the assumed protobuf contract.",
   technique=T, ref="4/C17"),
 "C18": dict(
   text="Proof (partial): SerializePolicies is proved to refuse (error, no bytes) once the authorizer has been evaluated, and to return no bytes on any error; LoadPolicies/loadPoliciesV2 and SerializePolicies are proved panic-free on every decoded message that satisfies the protobuf schema (required fields set, repeated elements non-nil: the assumed contract of proto.Unmarshal), including every nil dereference, index and type switch in the five loops; loading is proved to install exactly one check and one policy per decoded entry with the decoded kind (allow/deny), and to add facts and rules only to the authorizer's working world (write frame).",
   note="Not decided: equivalence of the restored authorizer with the original (a statement over two authorizers and a serialisation in between; each direction is under the row-by-row converter contracts of C07, and protobuf is assumed). An unknown policy kind cannot be loaded as allow or deny: every loaded policy's kind is proved to be the decoded kind.",
   technique=T, ref="4/C18"),
 "C19": dict(
   text="Proof by strict write frames instead of schedule exploration: EVERY function under contract (about 250: datalog engine and expression evaluation, converters, token construction, Append, Seal, signature verification, builders, authorizer, printing, parser conversion) is proved to write only what its modifies clause lists - for everything a shared token can reach that is 'nothing that existed before the call' (including in-place appends into spare capacity of shared slices and package-level variables) - and SymbolTable.Clone is proved to own its capacity; without writes to shared locations no interleaving can race on them.",
   note="Also proved with strict frames: Authorize and Query write only the authorizer's own working state (never the token, never the base state), GetBlockID, Serialize, RevocationIds, CreateBlock and all printing functions write nothing that existed before the call, the block builder writes only builder-owned memory. Sharing a parser.Parser is an assumption about participle. Assumed: library calls on shared read-only arguments are safe for concurrent use.",
   technique=T, ref="4/C19"),
 "C20": dict(
   text="Proof: with ed25519.GenerateKey's contract (error => nil keys; success => 32/64-byte keys with pub = pubOf(priv)), newBiscuit and Append are proved to return no token on error, never to reach Seed()/slicing with a nil key (panic obligations), and to store the seed whose public key they announce and sign.",
   note="Assumed: GenerateKey fails exactly when the reader it is given does not deliver 32 bytes (ghost predicate entropyOK(reader); Go 1.23 behaviour; the 'every k < 32' quantifier lives inside that assumed contract). With it, Append, newBiscuit (through WithRNG) and New are proved to report the failure of the reader the caller supplied - i.e. they are proved to use that reader. The token Builder hands the reader on wrapped in the option value WithRNG returned; that wrapper embeds the reader, so its Read is the embedded reader's (Go method promotion) - this one fact is an axiom (rng_option_delegates, listed in the evidence). With it NewBuilder is proved to draw from the last WithRNG source among its options, Builder.Build to report that source's failure and to return no token, and newBiscuit to use the last rng option wherever it stands in the option list.",
   technique=T, ref="4/C20"),
}

NOT_YET = "check not built yet in this commit (contracts for the functions it depends on are still being written); see DESIGN.md section 4 for the plan"
NA = {
 "C15": "relates two text-level functions (fmt-based printer, participle-driven parser); no contract on a function in /repo can express it (DESIGN.md section 4, C15)",
 "C02": "relational property over two authorizations (token T and T extended with block B): a contract on one call cannot state 'if the second succeeds then so does the first'. The facts that carry the argument are proved under other properties (C03: a block's facts and rules reach only that block's private world; C04: success needs every check to pass and an allow policy), but the monotonicity argument itself is not machine-checked, so nothing is claimed (DESIGN.md 9.2)",
 "C12": "relational property (the outcome is invariant under permutation of facts, rules, checks, queries, consistent renaming of variables, duplication, and repetition of Authorize): it compares two executions on related inputs, which one-call contracts cannot express; set semantics of fact insertion (C05) and the frames of Authorize (C03, C13) are proved but do not add up to the statement (DESIGN.md 9.2)",
}
ALL = ["C%02d" % i for i in range(1, 21)]

def main():
    hooks = subprocess.run(["git", "-C", "/repo", "log", "--format=%h %s"], capture_output=True, text=True).stdout.splitlines()
    hook_commits = [l.split()[0] for l in hooks if l.split(" ", 1)[1].startswith("verif:")]
    checks = []
    for pid in ALL:
        if pid not in CLAIMED:
            continue
        c = CLAIMED[pid]
        checks.append({
            "property_id": pid,
            "quick_cmd": "/verif/bin/check %s quick" % pid,
            "thorough_cmd": "/verif/bin/check %s thorough" % pid,
            "evidence_file": "/verif/evidence/%s.json" % pid,
            "replay_cmd_template": "/verif/bin/check --replay {path}",
            "engine": "govc",
            "level_claimed": {"category": "proof", "text": c["text"], "design_ref": c["ref"]},
            "level_note": c["note"],
            "technique": c["technique"],
        })
    na = []
    for pid in ALL:
        if pid in CLAIMED:
            continue
        na.append({"property_id": pid, "reason": NA.get(pid, NOT_YET)})
    m = {
        "version": 1,
        "setup_cmd": "cd /verif/govc && GOFLAGS=-mod=mod GOPROXY=off GOSUMDB=off GOTOOLCHAIN=local go build -o /verif/bin/govc ./cmd/govc",
        "hooks": {
            "guard": "verif",
            "enable": "go build -tags verif (the hook files are comment-only contract files zz_contracts_verif.go, read by /verif/bin/govc)",
            "baseline_off_cmd": "cd /repo && GOFLAGS=-mod=mod GOPROXY=off GOSUMDB=off go test -json -vet=off -count=1 -timeout 25m ./...",
            "source_commits": hook_commits,
            "add_only": True,
        },
        "engines": [{"name": "govc", "path": "/verif/govc", "serves_properties": sorted(CLAIMED), "kind_free_text": "self-written modular VC generator over go/ssa (x/tools v0.29.0); contracts as //@ comments in /repo/**/zz_contracts_verif.go and assumed contracts in /verif/contracts; obligations discharged by z3 5.1.0, z3 4.8.12, cvc5 1.0.3"}],
        "checks": checks,
        "not_applicable": na,
        "notes": "Known findings: /verif/known_findings.txt. Design: /verif/DESIGN.md.",
    }
    json.dump(m, open("/verif/MANIFEST.json", "w"), indent=1)
    print("claimed:", sorted(CLAIMED), "hooks:", hook_commits)

main()
