#!/bin/bash
# try-all-seeded-par.sh [workers]   the regression of tools/try-all-seeded.sh, run in
# parallel: every worker has its own scratch copy of /repo and its own scratch
# verification directory (contracts, templates and known findings linked from /verif;
# out/, evidence/ and replays/ private), so neither /repo nor /verif/evidence is touched.
# Solver budgets are CPU time, so running several at once does not change answers.
# One line per seeded change: CAUGHT/MISSED by the quick check of the property it was
# seeded for (first C-id of the directory name).
set -u
export GOFLAGS=-mod=mod GOPROXY=off GOSUMDB=off GOTOOLCHAIN=local
W=${1:-3}
S=${VERIF_SCRATCH:-/var/tmp}
if [ -n "$(git -C /repo status --porcelain)" ]; then echo "refusing: /repo working tree is not clean"; exit 2; fi
(cd /verif/govc && go build -o /verif/bin/govc ./cmd/govc) || exit 2
ls -d /verif/seeded/*/ | sort > $S/seeded-list.$$
worker() {
  w=$1
  R=$S/seedpar-repo-$w; V=$S/seedpar-verif-$w
  rm -rf $R $V; cp -a /repo $R; mkdir -p $V
  for x in contracts replay known_findings.txt bin govc properties.jsonl; do ln -s /verif/$x $V/$x; done
  i=0
  while read d; do
    i=$((i+1)); [ $((i % W)) -eq $((w % W)) ] || continue
    name=$(basename $d); prop=${name:0:3}
    patch=$d/patch.diff; [ -f $d/patch-rebased.diff ] && patch=$d/patch-rebased.diff
    git -C $R checkout -q -- . ; git -C $R clean -fdq
    if ! git -C $R apply $patch 2>/dev/null; then echo "NOAPPLY  $name"; continue; fi
    if ! (cd $R && go build ./... >/dev/null 2>&1); then echo "NOBUILD  $name"; continue; fi
    out=$(/verif/bin/govc -repo $R -verif $V -prop $prop -tier quick -mode check 2>&1); code=$?
    if [ $code = 1 ] && echo "$out" | grep -q "^VIOLATION property=$prop "; then
      echo "CAUGHT   $name by $prop: $(echo "$out" | grep '^VIOLATION' | head -1 | sed 's/.*obligation=//' | cut -c1-120)"
    else
      echo "MISSED   $name ($prop): $(echo "$out" | tail -1 | cut -c1-120)"
    fi
  done < $S/seeded-list.$$
  rm -rf $R $V
}
for w in $(seq 1 $W); do worker $w & done
wait
rm -f $S/seeded-list.$$
