package datalog

// Replay templates for obligations of package datalog (injected with
// `go test -overlay`; never written into /repo). Each test takes the verifier's
// model from GOVC_MODEL, rebuilds the inputs, runs the REAL code and compares
// with an oracle written independently from the property statement. A line
// starting with "REPRODUCED:" means the real code misbehaves on that input.

import (
	"fmt"
	"math/big"
	"os"
	"regexp"
	"strconv"
	"strings"
	"testing"
	"time"
)

var govcNum = regexp.MustCompile(`\(- (\d+)\)|(\d+)`)

func govcParseInt(s string) (*big.Int, bool) {
	m := govcNum.FindStringSubmatch(s)
	if m == nil {
		return nil, false
	}
	n := new(big.Int)
	if m[1] != "" {
		n.SetString(m[1], 10)
		n.Neg(n)
	} else {
		n.SetString(m[2], 10)
	}
	return n, true
}

// govcModelParam returns the text of "(define-fun p_<name>N () Sort VALUE)".
func govcModelParam(name string) string {
	for _, l := range strings.Split(os.Getenv("GOVC_MODEL"), "\n") {
		l = strings.TrimSpace(l)
		if strings.HasPrefix(l, "(define-fun p_"+name) {
			return l
		}
	}
	return ""
}

func govcTerm(line string) (Term, bool) {
	i := strings.Index(line, "mk_I_datalog_Term_datalog_")
	if i < 0 {
		return nil, false
	}
	rest := line[i+len("mk_I_datalog_Term_datalog_"):]
	kind := strings.FieldsFunc(rest, func(r rune) bool { return r == ' ' || r == ')' })[0]
	arg := rest[len(kind):]
	switch kind {
	case "Integer":
		if n, ok := govcParseInt(arg); ok && n.IsInt64() {
			return Integer(n.Int64()), true
		}
	case "String":
		if n, ok := govcParseInt(arg); ok && n.IsUint64() {
			return String(n.Uint64()), true
		}
	case "Date":
		if n, ok := govcParseInt(arg); ok && n.IsUint64() {
			return Date(n.Uint64()), true
		}
	case "Variable":
		if n, ok := govcParseInt(arg); ok && n.IsUint64() {
			return Variable(uint32(n.Uint64())), true
		}
	case "Bool":
		return Bool(strings.Contains(arg, "true")), true
	case "Bytes":
		return Bytes{1, 2}, true
	case "Set":
		return Set{Integer(1)}, true
	}
	return nil, false
}

func govcBinaryOp(name string) BinaryOpFunc {
	switch name {
	case "Add":
		return Add{}
	case "Sub":
		return Sub{}
	case "Mul":
		return Mul{}
	case "Div":
		return Div{}
	case "LessThan":
		return LessThan{}
	case "LessOrEqual":
		return LessOrEqual{}
	case "GreaterThan":
		return GreaterThan{}
	case "GreaterOrEqual":
		return GreaterOrEqual{}
	case "Equal":
		return Equal{}
	case "And":
		return And{}
	case "Or":
		return Or{}
	case "Contains":
		return Contains{}
	case "Intersection":
		return Intersection{}
	case "Union":
		return Union{}
	case "Prefix":
		return Prefix{}
	case "Suffix":
		return Suffix{}
	case "Regex":
		return Regex{}
	}
	return nil
}

// govcIntOracle: the operator table for integer operands, from the property
// statement (exact mathematical result if it fits in 64 bits, error otherwise).
func govcIntOracle(op string, l, r int64) (val *big.Int, isBool, b, wantErr, known bool) {
	L, R := big.NewInt(l), big.NewInt(r)
	z := new(big.Int)
	switch op {
	case "Add":
		z.Add(L, R)
	case "Sub":
		z.Sub(L, R)
	case "Mul":
		z.Mul(L, R)
	case "Div":
		if r == 0 {
			return nil, false, false, true, true
		}
		z.Quo(L, R)
	case "LessThan":
		return nil, true, l < r, false, true
	case "LessOrEqual":
		return nil, true, l <= r, false, true
	case "GreaterThan":
		return nil, true, l > r, false, true
	case "GreaterOrEqual":
		return nil, true, l >= r, false, true
	case "Equal":
		return nil, true, l == r, false, true
	case "And", "Or", "Prefix", "Suffix", "Regex", "Intersection", "Union":
		return nil, false, false, true, true
	default:
		return nil, false, false, false, false
	}
	if !z.IsInt64() {
		return nil, false, false, true, true
	}
	return z, false, false, false, true
}

func govcCheckBinary(t *testing.T, opName string, l, r Term) bool {
	op := govcBinaryOp(opName)
	if op == nil {
		return false
	}
	syms := &SymbolTable{"a", "b"}
	var res Term
	var err error
	panicked := func() (p interface{}) {
		defer func() { p = recover() }()
		res, err = op.Eval(l, r, syms)
		return nil
	}()
	if panicked != nil {
		fmt.Printf("REPRODUCED: %s.Eval(%#v, %#v) panics: %v\n", opName, l, r, panicked)
		return true
	}
	li, lok := l.(Integer)
	ri, rok := r.(Integer)
	if lok && rok {
		val, isBool, b, wantErr, known := govcIntOracle(opName, int64(li), int64(ri))
		if !known {
			return false
		}
		switch {
		case wantErr && err == nil:
			fmt.Printf("REPRODUCED: %s.Eval(%d, %d) = %v, nil; the operator table requires an error (the exact result does not fit in 64 bits, or the operands are ill-typed)\n", opName, li, ri, res)
			return true
		case !wantErr && err != nil:
			fmt.Printf("REPRODUCED: %s.Eval(%d, %d) returns error %v; the operator table defines a value\n", opName, li, ri, err)
			return true
		case !wantErr && isBool && res != Term(Bool(b)):
			fmt.Printf("REPRODUCED: %s.Eval(%d, %d) = %v, want %v\n", opName, li, ri, res, b)
			return true
		case !wantErr && !isBool && res != Term(Integer(val.Int64())):
			fmt.Printf("REPRODUCED: %s.Eval(%d, %d) = %v, want %v\n", opName, li, ri, res, val)
			return true
		}
	}
	return false
}

// TestGovcReplayBinaryEval replays a failed obligation of some <Op>.Eval.
func TestGovcReplayBinaryEval(t *testing.T) {
	name := os.Getenv("GOVC_OBLIGATION") // datalog.Div.Eval/ensures/no_wrap@ret3
	parts := strings.Split(name, ".")
	if len(parts) < 3 {
		t.Skip("no obligation")
	}
	opName := parts[1]
	l, lok := govcTerm(govcModelParam("left"))
	r, rok := govcTerm(govcModelParam("right"))
	if lok && rok {
		fmt.Printf("model input: left=%#v right=%#v\n", l, r)
		if govcCheckBinary(t, opName, l, r) {
			t.Fail()
			return
		}
		fmt.Println("the model's input does not misbehave on the real code; searching the boundary family")
	}
	// property-level search: 64-bit boundary values and small values, all pairs
	bounds := []int64{-9223372036854775808, -9223372036854775807, -2, -1, 0, 1, 2, 3, 9223372036854775806, 9223372036854775807}
	for _, a := range bounds {
		for _, b := range bounds {
			if govcCheckBinary(t, opName, Integer(a), Integer(b)) {
				t.Fail()
				return
			}
		}
	}
	others := []Term{Bool(true), String(1), Date(0), Bytes{}, Set{Integer(1)}, Set{Bytes{1}}, Set{Bytes{1}, Bytes{2}}}
	for _, a := range others {
		for _, b := range others {
			if govcCheckBinary(t, opName, a, b) {
				t.Fail()
				return
			}
		}
	}
	fmt.Println("no failing input found in the boundary family")
}

// TestGovcReplayStr replays a failed obligation of SymbolTable.Str / Var.
func TestGovcReplayStr(t *testing.T) {
	var cands []uint64
	if n, ok := govcParseInt(strings.TrimPrefix(govcModelParam("sym"), "(define-fun ")); ok && n.IsUint64() {
		_ = n
	}
	line := govcModelParam("sym")
	if i := strings.LastIndex(line, " Int "); i >= 0 {
		if n, ok := govcParseInt(line[i+5:]); ok && n.IsUint64() {
			cands = append(cands, n.Uint64())
		}
	}
	cands = append(cands, 0, 27, 28, 1023, 1024, 1025, 1<<31, 1<<32, 1<<63-1, 1<<63, 1<<64-1)
	for _, c := range cands {
		tab := &SymbolTable{"x"}
		p := func() (p interface{}) {
			defer func() { p = recover() }()
			_ = tab.Str(String(c))
			return nil
		}()
		if p != nil {
			fmt.Printf("REPRODUCED: (&SymbolTable{\"x\"}).Str(String(%s)) panics: %v\n", strconv.FormatUint(c, 10), p)
			t.Fail()
			return
		}
	}
	fmt.Println("no failing input found")
}

// TestGovcReplayCloneLimits: C11 — a clone of a world evaluates under the limits of
// the world it was cloned from (every world an authorizer runs is a clone).
func TestGovcReplayCloneLimits(t *testing.T) {
	w := NewWorld(WithMaxFacts(3), WithMaxIterations(50), WithMaxDuration(10*time.Second))
	c := w.Clone()
	for i := 0; i < 5; i++ {
		c.AddFact(Fact{Predicate{Name: String(1), Terms: []Term{Integer(int64(i))}}})
	}
	syms := &SymbolTable{}
	if err := c.Run(syms); err != ErrWorldRunLimitMaxFacts {
		fmt.Printf("REPRODUCED: NewWorld(WithMaxFacts(3)).Clone() holding 5 facts: Run returns %v, the limit of the original world gives ErrWorldRunLimitMaxFacts\n", err)
		t.Fail()
		return
	}
	w2 := NewWorld(WithMaxFacts(1000), WithMaxIterations(2), WithMaxDuration(10*time.Second))
	c2 := w2.Clone()
	c2.AddFact(Fact{Predicate{Name: String(1), Terms: []Term{Integer(0)}}})
	// n(x+1) <- n(x), x < 50 : needs 50 iterations
	c2.AddRule(Rule{Head: Predicate{Name: String(1), Terms: []Term{Variable(3)}}, Body: []Predicate{{Name: String(2), Terms: []Term{Variable(3)}}}})
	for i := 0; i < 10; i++ {
		c2.AddFact(Fact{Predicate{Name: String(10 + uint64(i)), Terms: []Term{Integer(int64(i))}}})
		c2.AddRule(Rule{Head: Predicate{Name: String(11 + uint64(i)), Terms: []Term{Variable(3)}}, Body: []Predicate{{Name: String(10 + uint64(i)), Terms: []Term{Variable(3)}}}})
	}
	if err := c2.Run(syms); err != ErrWorldRunLimitMaxIterations {
		fmt.Printf("REPRODUCED: NewWorld(WithMaxIterations(2)).Clone() with a 10-step derivation chain: Run returns %v, the limit of the original world gives ErrWorldRunLimitMaxIterations\n", err)
		t.Fail()
		return
	}
	fmt.Println("NOT-REPRODUCED: clones evaluate under the fact and iteration limits of the world they were cloned from")
}

// TestGovcReplaySetOps searches sets of every element type (the quantifier of
// C06/C10) for a panic in Set.Equal / Intersect / Union.
func TestGovcReplaySetOps(t *testing.T) {
	elems := [][]Term{
		{Integer(1), Integer(2)}, {String(1)}, {Date(3)}, {Bool(true)},
		{Bytes{1}}, {Bytes{1}, Bytes{2}}, {Bytes{}},
	}
	for _, a := range elems {
		for _, b := range elems {
			sa, sb := Set(a), Set(b)
			for _, op := range []struct {
				name string
				f    func()
			}{
				{"Equal", func() { sa.Equal(sb) }},
				{"Intersect", func() { sa.Intersect(sb) }},
				{"Union", func() { sa.Union(sb) }},
			} {
				p := func() (p interface{}) {
					defer func() { p = recover() }()
					op.f()
					return nil
				}()
				if p != nil && strings.Contains(os.Getenv("GOVC_OBLIGATION"), "."+op.name+"/") {
					fmt.Printf("REPRODUCED: Set%v.%s(Set%v) panics: %v\n", a, op.name, b, p)
					t.Fail()
					return
				}
			}
		}
	}
	// operands are read-only and the result is a value of its own (term storage of a
	// fact is shared between the worlds of an authorizer)
	ints := func(xs ...int64) Set {
		s := make(Set, len(xs))
		for i, x := range xs {
			s[i] = Integer(x)
		}
		return s
	}
	for _, c := range [][2]Set{{ints(1, 2, 3), ints(2)}, {ints(1, 2, 3), ints(3, 1)}, {ints(5), ints(1, 2, 5, 7)}, {ints(1, 2), ints(3, 4)}} {
		for _, name := range []string{"Intersect", "Union"} {
			sa, sb := append(Set{}, c[0]...), append(Set{}, c[1]...)
			var r Set
			if name == "Intersect" {
				r = sa.Intersect(sb)
			} else {
				r = sa.Union(sb)
			}
			if !sa.Equal(c[0]) || !sb.Equal(c[1]) || len(sa) != len(c[0]) || len(sb) != len(c[1]) {
				fmt.Printf("REPRODUCED: Set%v.%s(Set%v) changes an operand: afterwards the operands are %v and %v\n", c[0], name, c[1], sa, sb)
				t.Fail()
				return
			}
			for i := range sa {
				if sa[i] != c[0][i] {
					fmt.Printf("REPRODUCED: Set%v.%s(Set%v) rewrites its receiver: afterwards it is %v\n", c[0], name, c[1], sa)
					t.Fail()
					return
				}
			}
			if len(r) > 0 {
				r[0] = Integer(-99)
				if sa[0] == Integer(-99) || sb[0] == Integer(-99) {
					fmt.Printf("REPRODUCED: the result of Set%v.%s(Set%v) shares storage with an operand\n", c[0], name, c[1])
					t.Fail()
					return
				}
			}
		}
	}
	fmt.Println("no failing input found")
}
