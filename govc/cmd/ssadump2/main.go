package main

import (
	"fmt"
	"os"
	"sort"
	"strings"

	"golang.org/x/tools/go/packages"
	"golang.org/x/tools/go/ssa"
	"golang.org/x/tools/go/ssa/ssautil"
)

func main() {
	cfg := &packages.Config{Mode: packages.LoadAllSyntax, Dir: "/repo", BuildFlags: []string{"-tags=verif"}}
	pkgs, err := packages.Load(cfg, "./...")
	if err != nil {
		panic(err)
	}
	prog, spkgs := ssautil.AllPackages(pkgs, ssa.GlobalDebug)
	prog.Build()
	want := os.Args[1:]
	for _, p := range spkgs {
		if p == nil {
			continue
		}
		fns := []*ssa.Function{}
		for fn := range ssautil.AllFunctions(prog) {
			if fn.Pkg == p {
				fns = append(fns, fn)
			}
		}
		sort.Slice(fns, func(i, j int) bool { return fns[i].String() < fns[j].String() })
		for _, fn := range fns {
			ok := len(want) == 0
			for _, w := range want {
				if strings.Contains(fn.String(), w) {
					ok = true
				}
			}
			if !ok {
				continue
			}
			if len(want) == 0 {
				n := 0
				for _, b := range fn.Blocks {
					n += len(b.Instrs)
				}
				fmt.Printf("%s\t%d blocks\t%d instrs\n", fn.String(), len(fn.Blocks), n)
			} else {
				fn.WriteTo(os.Stdout)
			}
		}
	}
}
