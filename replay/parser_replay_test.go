package parser

// Replay templates for obligations of package parser (injected with
// `go test -overlay`; never written into /repo).

import (
	"crypto/ed25519"
	"crypto/rand"
	"fmt"
	"testing"

	"github.com/biscuit-auth/biscuit-go/v2"
)

// TestGovcReplayExprTermNil: C14 — ExprTerm.ToExpr discards the error of
// Term.ToBiscuit, so an expression operand that cannot be converted (unbound
// parameter, undecodable date) becomes a Value with a nil term: the parser returns
// no error, and the first use of the rule dereferences nil.
func TestGovcReplayExprTermNil(t *testing.T) {
	for _, src := range []string{
		`head($x) <- fact($x), $x == {missing}`,
		`head($x) <- fact($x), $x < 2023-13-45T99:00:00Z`,
	} {
		rule, err := FromStringRule(src)
		if err != nil {
			continue
		}
		for _, e := range rule.Expressions {
			for _, op := range e {
				if v, ok := op.(biscuit.Value); ok && v.Term == nil {
					what := "and using it panics"
					func() {
						defer func() {
							if r := recover(); r != nil {
								what = fmt.Sprintf("and Builder.AddAuthorityRule panics: %v", r)
							}
						}()
						_, priv, _ := ed25519.GenerateKey(rand.Reader)
						b := biscuit.NewBuilder(priv)
						b.AddAuthorityRule(rule)
						what = "(AddAuthorityRule did not panic)"
					}()
					fmt.Printf("REPRODUCED: parsing %q returns no error but the expression holds a Value with a nil term %s\n", src, what)
					t.Fail()
					return
				}
			}
		}
	}
	fmt.Println("NOT-REPRODUCED: every expression operand is either converted or reported as an error")
}
