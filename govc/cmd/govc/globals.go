package main

import (
	"fmt"
	"go/types"

	"golang.org/x/tools/go/ssa"
)

// Globals analyses package-level variables once per program: which are never
// written outside their package initialiser (immutable), and the constant
// initial values that init stores into them.
type Globals struct {
	P         *Program
	Mutable   map[*ssa.Global]string // reason
	InitConst map[*ssa.Global]*ssa.Const
	InitElems map[*ssa.Global]map[int64]*ssa.Const   // array globals
	InitFields map[*ssa.Global]map[int]*ssa.Const    // struct globals
	InitAlloc map[*ssa.Global]*ssa.Alloc             // pointer globals initialised with &T{...}
	ErrorNew  map[*ssa.Global]bool                   // = errors.New(...)
	// map globals initialised with a literal of constant keys and values whose loaded
	// value is only ever used for lookups (a constant table)
	InitMap    map[*ssa.Global][][2]*ssa.Const
	MapAliased map[*ssa.Global]string // reason the table is not constant
}

func analyseGlobals(P *Program) *Globals {
	G := &Globals{P: P, Mutable: map[*ssa.Global]string{}, InitConst: map[*ssa.Global]*ssa.Const{},
		InitElems: map[*ssa.Global]map[int64]*ssa.Const{}, InitFields: map[*ssa.Global]map[int]*ssa.Const{},
		InitAlloc: map[*ssa.Global]*ssa.Alloc{}, ErrorNew: map[*ssa.Global]bool{},
		InitMap: map[*ssa.Global][][2]*ssa.Const{}, MapAliased: map[*ssa.Global]string{}}
	rootGlobal := func(v ssa.Value) *ssa.Global {
		for {
			switch x := v.(type) {
			case *ssa.Global:
				return x
			case *ssa.FieldAddr:
				v = x.X
			case *ssa.IndexAddr:
				v = x.X
			default:
				return nil
			}
		}
	}
	for _, fn := range P.ByName {
		isInit := fn.Name() == "init" && fn.Parent() == nil
		for _, b := range fn.Blocks {
			for _, in := range b.Instrs {
				// any use of a global other than load / FieldAddr / IndexAddr / store-in-init makes it "escaping"
				for _, op := range in.Operands(nil) {
					if op == nil || *op == nil {
						continue
					}
					g, ok := (*op).(*ssa.Global)
					if !ok {
						continue
					}
					switch x := in.(type) {
					case *ssa.UnOp, *ssa.FieldAddr, *ssa.IndexAddr, *ssa.DebugRef:
					case *ssa.Store:
						if x.Addr != g {
							G.Mutable[g] = "address stored"
						}
					default:
						G.Mutable[g] = fmt.Sprintf("escapes via %T in %s", in, canonName(fn))
					}
				}
				st, ok := in.(*ssa.Store)
				if !ok {
					continue
				}
				g := rootGlobal(st.Addr)
				if g == nil {
					continue
				}
				if !isInit || g.Pkg != fn.Pkg {
					G.Mutable[g] = "stored in " + canonName(fn)
					continue
				}
				// record constant initialisers
				switch a := st.Addr.(type) {
				case *ssa.Global:
					switch v := st.Val.(type) {
					case *ssa.Const:
						G.InitConst[g] = v
					case *ssa.MakeMap:
						var kvs [][2]*ssa.Const
						constTable := true
						for _, r := range *v.Referrers() {
							switch u := r.(type) {
							case *ssa.MapUpdate:
								kc, ok1 := u.Key.(*ssa.Const)
								vv, ok2 := u.Value.(*ssa.Const)
								if u.Map != ssa.Value(v) || !ok1 || !ok2 {
									constTable = false
								} else {
									kvs = append(kvs, [2]*ssa.Const{kc, vv})
								}
							case *ssa.Store, *ssa.DebugRef:
							default:
								constTable = false
							}
						}
						if constTable {
							G.InitMap[g] = kvs
						}
					case *ssa.Alloc:
						G.InitAlloc[g] = v
					case *ssa.Call:
						if c := v.Call.StaticCallee(); c != nil && c.String() == "errors.New" {
							G.ErrorNew[g] = true
						}
					}
				case *ssa.IndexAddr:
					if c, ok := st.Val.(*ssa.Const); ok {
						if ic, ok := a.Index.(*ssa.Const); ok && a.X == ssa.Value(g) {
							if G.InitElems[g] == nil {
								G.InitElems[g] = map[int64]*ssa.Const{}
							}
							G.InitElems[g][ic.Int64()] = c
						}
					}
				case *ssa.FieldAddr:
					if c, ok := st.Val.(*ssa.Const); ok && a.X == ssa.Value(g) {
						if G.InitFields[g] == nil {
							G.InitFields[g] = map[int]*ssa.Const{}
						}
						G.InitFields[g][a.Field] = c
					}
				}
			}
		}
	}
	return G
}

// ref returns the constant heap reference standing for the global's storage.
func (G *Globals) ref(vc *VC, g *ssa.Global) string {
	n := "g_" + sanitize(shortPkg(g.Pkg.Pkg.Path())+"_"+g.Name())
	if !vc.declared[n] {
		vc.declareNamed(n, "Int")
		vc.decls = append(vc.decls, fmt.Sprintf("(assert (and (< 0 %s) (< %s alloc0)))", n, n))
		vc.globalRefs = append(vc.globalRefs, n)
		if len(vc.globalRefs) > 1 {
			for _, o := range vc.globalRefs[:len(vc.globalRefs)-1] {
				vc.decls = append(vc.decls, fmt.Sprintf("(assert (not (= %s %s)))", n, o))
			}
		}
	}
	return n
}

// globalAddr gives the address of a global; immutable globals with known
// initialisers read as constants.
func (vc *VC) globalAddr(g *ssa.Global) *Addr {
	G := vc.G
	T := g.Type().Underlying().(*types.Pointer).Elem()
	_, mutable := G.Mutable[g]
	if g.Pkg == nil || !vc.P.Module[g.Pkg.Pkg] {
		// foreign global (rand.Reader, binary.LittleEndian, ...): an unknown but fixed value
		n := "gv_" + sanitize(g.Pkg.Pkg.Path()+"_"+g.Name())
		vc.declareNamed(n, vc.S.sortOf(T))
		vc.note("foreign global " + g.String() + " read as a fixed unknown value")
		return &Addr{Const: n, Typ: T}
	}
	if !mutable {
		n := "gv_" + sanitize(shortPkg(g.Pkg.Pkg.Path())+"_"+g.Name())
		if !vc.declared[n] {
			vc.declareNamed(n, vc.S.sortOf(T))
			vc.usedAssumptions["global "+shortPkg(g.Pkg.Pkg.Path())+"."+g.Name()+" is written only by its package initialiser (checked over the module's SSA)"] = true
			switch {
			case G.InitConst[g] != nil:
				vc.decls = append(vc.decls, fmt.Sprintf("(assert (= %s %s))", n, vc.constTerm(G.InitConst[g])))
			case G.InitElems[g] != nil:
				for _, k := range sortedIntKeys(G.InitElems[g]) {
					vc.decls = append(vc.decls, fmt.Sprintf("(assert (= (select %s %d) %s))", n, k, vc.constTerm(G.InitElems[g][k])))
				}
			case G.InitFields[g] != nil:
				info := vc.S.structInfoOf(T)
				if info != nil {
					for k, c := range G.InitFields[g] {
						vc.decls = append(vc.decls, fmt.Sprintf("(assert (= (%s %s) %s))", info.Fields[k], n, vc.constTerm(c)))
					}
				}
			case G.ErrorNew[g]:
				vc.errSentinels = append(vc.errSentinels, n)
				vc.decls = append(vc.decls, fmt.Sprintf("(assert (not (= %s 0)))", n))
				for _, o := range vc.errSentinels[:len(vc.errSentinels)-1] {
					vc.decls = append(vc.decls, fmt.Sprintf("(assert (not (= %s %s)))", n, o))
				}
			case G.InitAlloc[g] != nil:
				vc.decls = append(vc.decls, fmt.Sprintf("(assert (and (< 0 %s) (< %s alloc0)))", n, n))
			}
			if inv := vc.typeInv(n, T, "alloc0"); inv != "true" {
				vc.decls = append(vc.decls, "(assert "+inv+")")
			}
		}
		return &Addr{Const: n, Typ: T}
	}
	return &Addr{Comp: vc.S.cellComp(T), Ref: G.ref(vc, g), Typ: T}
}

func sortedIntKeys(m map[int64]*ssa.Const) []int64 {
	var ks []int64
	for k := range m {
		ks = append(ks, k)
	}
	for i := range ks {
		for j := i + 1; j < len(ks); j++ {
			if ks[j] < ks[i] {
				ks[i], ks[j] = ks[j], ks[i]
			}
		}
	}
	return ks
}

func (vc *VC) note(s string) {
	for _, n := range vc.notes {
		if n == s {
			return
		}
	}
	vc.notes = append(vc.notes, s)
}
