package main

import (
	"bufio"
	"fmt"
	"os"
	"path/filepath"
	"strconv"
	"strings"
	"unicode"
)

// ---- contract files -------------------------------------------------------

type Clause struct {
	Label string
	Expr  *Expr
	Src   string
	Line  string // file:line of the clause
	Serves []string // overrides the contract's serves for this clause (optional)
}

type LoopSpec struct {
	Invariants  []Clause
	Modifies    []*Expr
	HasModifies bool
	Runs        []LoopRun
}

// LoopRun: "loop N runs loop K [Cxx ...]" - every completed iteration of loop N (every
// path from its body back to its head) passes through the head of the nested loop K.
// A structural obligation, decided on the control-flow graph.
type LoopRun struct {
	Inner  int
	Serves []string
	Line   string
	Src    string
}

type Contract struct {
	Name      string   // canonical function name (pkg.Recv.Func)
	Pkg       string   // short package name the contract file belongs to
	Params    []string // positional names (receiver first); "_" = unnamed
	Results   []string
	Serves    []string
	Requires  []Clause
	Assumes   []Clause
	Chans     map[string]*ChanSpec
	Defines   []Clause
	Ensures   []Clause
	Modifies  []*Expr // nil slice + ModAny => anything
	ModAny    bool    // no modifies clause given
	ModNothing bool
	Loops     map[int]*LoopSpec
	PanicsIf  []Clause
	Extern    bool
	Trusted   bool   // body not verified (assumed contract)
	Pure      bool   // declared without side effects (extern)
	Touches   []string // extern: heap components it may write ("none" default)
	Lets      []LetDef
	Line      string
	Opaque    bool // callers never inline
	Iface     bool // contract of an interface method
	ifaceEff  *effectSet
}

type LetDef struct {
	Name string
	Expr *Expr
}

type GhostFunc struct {
	Name    string
	Params  []string
	PSorts  []string // declared sorts/types as written
	RSort   string
	Body    *Expr // nil for uninterpreted
	Pkg     string
}

type Axiom struct {
	Name string
	Expr *Expr
	Pkg  string
	Src  string
}

type Lemma struct {
	Name   string
	Expr   *Expr
	Pkg    string
	Serves []string
	Src    string
	Line   string
	Params []string // "name sort" declarations (universally quantified constants)
	PSorts []string
	Uses   []string // axioms by name to include (default: all)
}

type SpecSet struct {
	Contracts map[string]*Contract
	Order     []string
	Ghosts    map[string]*GhostFunc
	GhostOrder []string
	Axioms    []*Axiom
	Lemmas    []*Lemma
	FuncTypes map[string]*Contract // by type name "biscuit.AuthorizerOption"
	Ifaces    map[string]*Contract // interface-method contracts: "datalog.BinaryOpFunc.Eval"
	IfaceOrder []string
	RawSMT    []string
	Files     []string
}

func newSpecSet() *SpecSet {
	return &SpecSet{Contracts: map[string]*Contract{}, Ghosts: map[string]*GhostFunc{}, FuncTypes: map[string]*Contract{}, Ifaces: map[string]*Contract{}}
}

// readSpecFile parses the //@ lines of one file. pkg is the short package name
// used to qualify unqualified function names.
func (ss *SpecSet) readSpecFile(path, pkg string) error {
	f, err := os.Open(path)
	if err != nil {
		return err
	}
	defer f.Close()
	ss.Files = append(ss.Files, path)
	sc := bufio.NewScanner(f)
	sc.Buffer(make([]byte, 1<<20), 1<<20)
	var cur *Contract
	var curLemma *Lemma
	ln := 0
	base := filepath.Base(path)
	if strings.HasPrefix(path, "/repo/") {
		base = strings.TrimPrefix(path, "/repo/")
	}
	var pending string
	for sc.Scan() {
		ln++
		line := strings.TrimSpace(sc.Text())
		if !strings.HasPrefix(line, "//@") {
			continue
		}
		line = strings.TrimSpace(strings.TrimPrefix(line, "//@"))
		if i := strings.Index(line, " //"); i >= 0 { // trailing comment
			line = strings.TrimSpace(line[:i])
		}
		if line == "" {
			continue
		}
		// continuation: a line ending with '\' joins the next one
		if strings.HasSuffix(line, "\\") {
			pending += strings.TrimSuffix(line, "\\") + " "
			continue
		}
		line = pending + line
		pending = ""
		where := fmt.Sprintf("%s:%d", base, ln)
		kw, rest := splitWord(line)
		perr := func(e error) error { return fmt.Errorf("%s: %v (in %q)", where, e, line) }
		switch kw {
		case "func", "extern", "functype", "iface":
			curLemma = nil
			hk := kw
			if kw == "iface" {
				hk = "func"
			}
			c, err := parseHeader(rest, pkg, hk)
			if err != nil {
				return perr(err)
			}
			c.Line = where
			c.Pkg = pkg
			c.ModAny = true
			c.Loops = map[int]*LoopSpec{}
			if kw == "iface" {
				// contract of an interface method: used at invoke sites; every
				// implementing method is verified against it (behavioural subtyping)
				c.ModAny = false
				c.ModNothing = true
				c.Iface = true
				ss.Ifaces[c.Name] = c
				ss.IfaceOrder = append(ss.IfaceOrder, c.Name)
				cur = c
				break
			}
			if kw == "extern" || kw == "functype" {
				// assumed contracts state their frame: no clause = modifies nothing
				c.Extern = kw == "extern"
				c.Trusted = true
				c.ModAny = false
				c.ModNothing = true
			}
			if kw == "functype" {
				ss.FuncTypes[c.Name] = c
			} else {
				if _, dup := ss.Contracts[c.Name]; dup {
					return perr(fmt.Errorf("duplicate contract for %s", c.Name))
				}
				ss.Contracts[c.Name] = c
				ss.Order = append(ss.Order, c.Name)
			}
			cur = c
		case "serves":
			if curLemma != nil {
				curLemma.Serves = strings.Fields(rest)
			} else if cur != nil {
				cur.Serves = strings.Fields(rest)
			}
		case "trusted":
			if cur != nil {
				cur.Trusted = true
			}
		case "opaque":
			if cur != nil {
				cur.Opaque = true
			}
		case "touches":
			if cur != nil {
				cur.Touches = strings.Fields(rest)
			}
		case "chan":
			if cur == nil {
				return perr(fmt.Errorf("clause outside contract"))
			}
			if err := parseChanClause(cur, rest, where); err != nil {
				return perr(err)
			}
		case "defines":
			if cur == nil {
				return perr(fmt.Errorf("clause outside contract"))
			}
			cl, err := parseClause(rest, where)
			if err != nil {
				return perr(err)
			}
			cur.Defines = append(cur.Defines, cl)
		case "assumes":
			// an explicit, listed assumption about the function's inputs that is
			// NOT checked at call sites (e.g. "the API caller passes non-nil options")
			if cur == nil {
				return perr(fmt.Errorf("clause outside contract"))
			}
			cl, err := parseClause(rest, where)
			if err != nil {
				return perr(err)
			}
			cur.Assumes = append(cur.Assumes, cl)
		case "requires", "ensures", "panics":
			if cur == nil {
				return perr(fmt.Errorf("clause outside contract"))
			}
			if kw == "panics" {
				_, rest = splitWord(rest) // "if"
			}
			cl, err := parseClause(rest, where)
			if err != nil {
				return perr(err)
			}
			switch kw {
			case "requires":
				cur.Requires = append(cur.Requires, cl)
			case "ensures":
				cur.Ensures = append(cur.Ensures, cl)
			case "panics":
				cur.PanicsIf = append(cur.PanicsIf, cl)
			}
		case "let":
			if cur == nil {
				return perr(fmt.Errorf("let outside contract"))
			}
			i := strings.Index(rest, "=")
			if i < 0 {
				return perr(fmt.Errorf("let needs ="))
			}
			e, err := parseExpr(rest[i+1:])
			if err != nil {
				return perr(err)
			}
			cur.Lets = append(cur.Lets, LetDef{strings.TrimSpace(rest[:i]), e})
		case "modifies":
			if cur == nil {
				return perr(fmt.Errorf("modifies outside contract"))
			}
			cur.ModAny = false
			cur.ModNothing = false
			if strings.TrimSpace(rest) == "nothing" {
				cur.ModNothing = true
				break
			}
			for _, part := range splitTop(rest, ',') {
				// "<location> when <condition>": modified only if the condition
				// holds in the pre-state
				var cond *Expr
				if i := strings.Index(part, " when "); i >= 0 {
					c, err := parseExpr(part[i+6:])
					if err != nil {
						return perr(err)
					}
					cond = c
					part = part[:i]
				}
				e, err := parseExpr(part)
				if err != nil {
					return perr(err)
				}
				if cond != nil {
					e = &Expr{Op: "when", Args: []*Expr{e, cond}}
				}
				cur.Modifies = append(cur.Modifies, e)
			}
		case "loop":
			if cur == nil {
				return perr(fmt.Errorf("loop outside contract"))
			}
			ns, r2 := splitWord(rest)
			n, err := strconv.Atoi(ns)
			if err != nil {
				return perr(err)
			}
			k2, r3 := splitWord(r2)
			if k2 == "modifies" {
				// loop frame: the locations existing at loop entry that the loop may
				// write (evaluated at loop entry); everything else that existed then is
				// unchanged at the loop head
				if cur.Loops[n] == nil {
					cur.Loops[n] = &LoopSpec{}
				}
				cur.Loops[n].HasModifies = true
				if strings.TrimSpace(r3) != "nothing" {
					for _, part := range splitTop(r3, ',') {
						e, err := parseExpr(part)
						if err != nil {
							return perr(err)
						}
						cur.Loops[n].Modifies = append(cur.Loops[n].Modifies, e)
					}
				}
				break
			}
			if k2 == "runs" {
				w, r4 := splitWord(r3)
				ks, r5 := splitWord(r4)
				k, err := strconv.Atoi(ks)
				if w != "loop" || err != nil {
					return perr(fmt.Errorf("expected 'loop N runs loop K [Cxx ...]'"))
				}
				run := LoopRun{Inner: k, Line: where, Src: strings.TrimSpace(rest)}
				if tags := strings.TrimSpace(r5); strings.HasPrefix(tags, "[") && strings.HasSuffix(tags, "]") {
					run.Serves = strings.Fields(tags[1 : len(tags)-1])
				}
				if cur.Loops[n] == nil {
					cur.Loops[n] = &LoopSpec{}
				}
				cur.Loops[n].Runs = append(cur.Loops[n].Runs, run)
				break
			}
			if k2 != "invariant" {
				return perr(fmt.Errorf("expected 'invariant', 'modifies' or 'runs'"))
			}
			cl, err := parseClause(r3, where)
			if err != nil {
				return perr(err)
			}
			if cur.Loops[n] == nil {
				cur.Loops[n] = &LoopSpec{}
			}
			cur.Loops[n].Invariants = append(cur.Loops[n].Invariants, cl)
		case "ghost", "pure":
			cur, curLemma = nil, nil
			g, err := parseGhost(rest, pkg)
			if err != nil {
				return perr(err)
			}
			if kw == "ghost" && g.Body != nil {
				return perr(fmt.Errorf("ghost func has a body; use 'pure'"))
			}
			if _, dup := ss.Ghosts[g.Name]; dup {
				return perr(fmt.Errorf("duplicate ghost %s", g.Name))
			}
			ss.Ghosts[g.Name] = g
			ss.GhostOrder = append(ss.GhostOrder, g.Name)
		case "axiom":
			cur, curLemma = nil, nil
			i := strings.Index(rest, ":")
			if i < 0 {
				return perr(fmt.Errorf("axiom needs name:"))
			}
			e, err := parseExpr(rest[i+1:])
			if err != nil {
				return perr(err)
			}
			ss.Axioms = append(ss.Axioms, &Axiom{Name: strings.TrimSpace(rest[:i]), Expr: e, Pkg: pkg, Src: strings.TrimSpace(rest[i+1:])})
		case "lemma":
			cur = nil
			i := strings.Index(rest, ":")
			if i < 0 {
				return perr(fmt.Errorf("lemma needs name:"))
			}
			e, err := parseExpr(rest[i+1:])
			if err != nil {
				return perr(err)
			}
			curLemma = &Lemma{Name: strings.TrimSpace(rest[:i]), Expr: e, Pkg: pkg, Src: strings.TrimSpace(rest[i+1:]), Line: where}
			ss.Lemmas = append(ss.Lemmas, curLemma)
		case "smt":
			ss.RawSMT = append(ss.RawSMT, rest)
		default:
			return perr(fmt.Errorf("unknown keyword %q", kw))
		}
	}
	return sc.Err()
}

func splitWord(s string) (string, string) {
	s = strings.TrimSpace(s)
	i := strings.IndexFunc(s, unicode.IsSpace)
	if i < 0 {
		return s, ""
	}
	return s[:i], strings.TrimSpace(s[i:])
}

// splitTop splits at sep outside brackets.
func splitTop(s string, sep byte) []string {
	var out []string
	depth := 0
	last := 0
	for i := 0; i < len(s); i++ {
		switch s[i] {
		case '(', '[', '{':
			depth++
		case ')', ']', '}':
			depth--
		case sep:
			if depth == 0 {
				out = append(out, s[last:i])
				last = i + 1
			}
		}
	}
	out = append(out, s[last:])
	return out
}

func parseClause(s, where string) (Clause, error) {
	cl := Clause{Line: where}
	// optional "label:" prefix (identifier chars, then ':' not followed by ':')
	i := 0
	for i < len(s) && (unicode.IsLetter(rune(s[i])) || unicode.IsDigit(rune(s[i])) || s[i] == '_' || s[i] == '@' || s[i] == '#') {
		i++
	}
	// "label[C08 C19]:" restricts the clause to the listed properties
	j := i
	var only []string
	if i > 0 && i < len(s) && s[i] == '[' {
		if k := strings.Index(s[i:], "]"); k > 0 {
			only = strings.Fields(strings.ReplaceAll(s[i+1:i+k], ",", " "))
			j = i + k + 1
		}
	}
	if i > 0 && j < len(s) && s[j] == ':' && (j+1 >= len(s) || s[j+1] != ':') {
		cl.Label = s[:i]
		cl.Serves = only
		s = s[j+1:]
	}
	e, err := parseExpr(s)
	if err != nil {
		return cl, err
	}
	cl.Expr = e
	cl.Src = strings.TrimSpace(s)
	return cl, nil
}

// parseHeader: "(t *SymbolTable) Str(sym String) (result string)" or
// "advanceIndexes(current *int, ...) (result bool)" or "Outer$1(id) (key, err)";
// extern: "math/big.NewInt(x) (r)". Only the NAMES matter; they bind positionally.
func parseHeader(s, pkg, kw string) (*Contract, error) {
	s = strings.TrimSpace(s)
	c := &Contract{}
	recvType := ""
	if kw == "extern" {
		// NAME may itself contain parentheses: "(*math/big.Int).Add(z, x, y) (r)".
		// The parameter list is the first top-level group not followed by '.'.
		i := 0
		for i < len(s) {
			if s[i] == '(' {
				j := matchParen(s, i)
				if j < 0 {
					return nil, fmt.Errorf("unbalanced extern header")
				}
				if j+1 < len(s) && s[j+1] == '.' {
					i = j + 1
					continue
				}
				c.Name = strings.TrimSpace(s[:i])
				c.Params = paramNames(s[i+1 : j])
				rest := strings.TrimSpace(s[j+1:])
				if strings.HasPrefix(rest, "(") {
					k := matchParen(rest, 0)
					if k < 0 {
						return nil, fmt.Errorf("unbalanced result list")
					}
					c.Results = paramNames(rest[1:k])
				}
				return c, nil
			}
			i++
		}
		return nil, fmt.Errorf("extern header without parameter list")
	}
	if strings.HasPrefix(s, "(") && kw != "functype" {
		// receiver
		j := matchParen(s, 0)
		if j < 0 {
			return nil, fmt.Errorf("unbalanced receiver")
		}
		recv := strings.TrimSpace(s[1:j])
		parts := strings.Fields(recv)
		switch len(parts) {
		case 1:
			c.Params = append(c.Params, "_")
			recvType = parts[0]
		case 2:
			c.Params = append(c.Params, parts[0])
			recvType = parts[1]
		default:
			return nil, fmt.Errorf("bad receiver %q", recv)
		}
		recvType = strings.TrimPrefix(recvType, "*")
		s = strings.TrimSpace(s[j+1:])
	}
	i := strings.Index(s, "(")
	if i < 0 {
		return nil, fmt.Errorf("missing parameter list")
	}
	name := strings.TrimSpace(s[:i])
	j := matchParen(s, i)
	if j < 0 {
		return nil, fmt.Errorf("unbalanced parameter list")
	}
	c.Params = append(c.Params, paramNames(s[i+1:j])...)
	rest := strings.TrimSpace(s[j+1:])
	if strings.HasPrefix(rest, "(") {
		k := matchParen(rest, 0)
		if k < 0 {
			return nil, fmt.Errorf("unbalanced result list")
		}
		c.Results = paramNames(rest[1:k])
	} else if rest != "" {
		c.Results = []string{"result"}
	}
	switch {
	case kw == "extern":
		c.Name = name
	case kw == "functype":
		if !strings.Contains(name, ".") {
			name = pkg + "." + name
		}
		c.Name = name
	case recvType != "":
		c.Name = pkg + "." + recvType + "." + name
	default:
		c.Name = pkg + "." + name
	}
	return c, nil
}

func matchParen(s string, i int) int {
	depth := 0
	for j := i; j < len(s); j++ {
		switch s[j] {
		case '(':
			depth++
		case ')':
			depth--
			if depth == 0 {
				return j
			}
		}
	}
	return -1
}

// paramNames extracts names from "a, b T, c *U" (Go grouping) or "a, b".
func paramNames(s string) []string {
	var out []string
	for _, part := range splitTop(s, ',') {
		part = strings.TrimSpace(part)
		if part == "" {
			continue
		}
		f := strings.Fields(part)
		out = append(out, f[0])
	}
	return out
}

// parseGhost: "name(a Sort, b Sort) Sort [= expr]"
func parseGhost(s, pkg string) (*GhostFunc, error) {
	_, s2 := splitWord("x " + s)
	s = s2
	if strings.HasPrefix(s, "func ") {
		s = strings.TrimSpace(s[5:])
	}
	i := strings.Index(s, "(")
	if i < 0 {
		return nil, fmt.Errorf("ghost: missing (")
	}
	g := &GhostFunc{Name: strings.TrimSpace(s[:i]), Pkg: pkg}
	j := matchParen(s, i)
	if j < 0 {
		return nil, fmt.Errorf("ghost: unbalanced")
	}
	for _, part := range splitTop(s[i+1:j], ',') {
		part = strings.TrimSpace(part)
		if part == "" {
			continue
		}
		nm, so := splitWord(part)
		g.Params = append(g.Params, nm)
		g.PSorts = append(g.PSorts, so)
	}
	rest := strings.TrimSpace(s[j+1:])
	if k := strings.Index(rest, "="); k >= 0 && !strings.HasPrefix(rest[k:], "==") {
		g.RSort = strings.TrimSpace(rest[:k])
		e, err := parseExpr(rest[k+1:])
		if err != nil {
			return nil, err
		}
		g.Body = e
	} else {
		g.RSort = rest
	}
	return g, nil
}

// ---- expression AST ---------------------------------------------------------

type Expr struct {
	Op   string // ident, num, str, bin, un, call, sel, index, slice, deref, quant, old, assert, is, nil, true, false, cond
	Name string // ident name / operator / selector / quantifier kind / type name
	Args []*Expr
	Vars []string // quantifier vars
	VTys []string // quantifier var types
	Trig []*Expr  // optional triggers
}

type lexer struct {
	s   string
	pos int
	tok string // current token text
	kind byte  // 'i' ident, 'n' number, 's' string, 'o' operator, 0 EOF
}

func (l *lexer) next() {
	for l.pos < len(l.s) && (l.s[l.pos] == ' ' || l.s[l.pos] == '\t') {
		l.pos++
	}
	if l.pos >= len(l.s) {
		l.kind, l.tok = 0, ""
		return
	}
	c := l.s[l.pos]
	start := l.pos
	switch {
	case unicode.IsLetter(rune(c)) || c == '_' || c == '#':
		l.pos++
		for l.pos < len(l.s) && (unicode.IsLetter(rune(l.s[l.pos])) || unicode.IsDigit(rune(l.s[l.pos])) || l.s[l.pos] == '_' || l.s[l.pos] == '$') {
			l.pos++
		}
		l.kind = 'i'
	case unicode.IsDigit(rune(c)):
		for l.pos < len(l.s) && (unicode.IsDigit(rune(l.s[l.pos])) || l.s[l.pos] == '_') {
			l.pos++
		}
		l.kind = 'n'
	case c == '"':
		l.pos++
		for l.pos < len(l.s) && l.s[l.pos] != '"' {
			if l.s[l.pos] == '\\' {
				l.pos++
			}
			l.pos++
		}
		l.pos++
		l.kind = 's'
	default:
		l.kind = 'o'
		for _, op := range []string{"<==>", "==>", "::", "==", "!=", "<=", ">=", "&&", "||", ".("} {
			if strings.HasPrefix(l.s[l.pos:], op) {
				l.pos += len(op)
				l.tok = op
				return
			}
		}
		l.pos++
	}
	l.tok = l.s[start:l.pos]
}

type parser struct{ l *lexer }

func parseExpr(s string) (*Expr, error) {
	p := &parser{&lexer{s: s}}
	p.l.next()
	var e *Expr
	var err error
	func() {
		defer func() {
			if r := recover(); r != nil {
				err = fmt.Errorf("%v", r)
			}
		}()
		e = p.expr()
		if p.l.kind != 0 {
			panic(fmt.Sprintf("unexpected %q at %d", p.l.tok, p.l.pos))
		}
	}()
	return e, err
}

func (p *parser) expect(t string) {
	if p.l.tok != t {
		panic(fmt.Sprintf("expected %q, got %q at %d", t, p.l.tok, p.l.pos))
	}
	p.l.next()
}

func (p *parser) expr() *Expr {
	if p.l.kind == 'i' && (p.l.tok == "forall" || p.l.tok == "exists") {
		q := &Expr{Op: "quant", Name: p.l.tok}
		p.l.next()
		for {
			if p.l.kind != 'i' {
				panic("quantifier: expected variable")
			}
			q.Vars = append(q.Vars, p.l.tok)
			p.l.next()
			// type: tokens up to ',' or '::'
			ty := ""
			depth := 0
			for (depth > 0 || p.l.tok != ",") && p.l.tok != "::" && p.l.kind != 0 {
				if p.l.tok == "(" {
					depth++
				} else if p.l.tok == ")" {
					depth--
				}
				if ty != "" && isWordChar(ty[len(ty)-1]) && isWordChar(p.l.tok[0]) {
					ty += " "
				}
				ty += p.l.tok
				p.l.next()
			}
			q.VTys = append(q.VTys, ty)
			if p.l.tok == "," {
				p.l.next()
				continue
			}
			break
		}
		p.expect("::")
		if p.l.tok == "{" { // trigger { e, e }
			p.l.next()
			for {
				q.Trig = append(q.Trig, p.impl())
				if p.l.tok == "," {
					p.l.next()
					continue
				}
				break
			}
			p.expect("}")
		}
		q.Args = []*Expr{p.expr()}
		return q
	}
	return p.impl()
}

func (p *parser) impl() *Expr {
	l := p.or()
	if p.l.tok == "==>" {
		p.l.next()
		var r *Expr
		if p.l.kind == 'i' && (p.l.tok == "forall" || p.l.tok == "exists") {
			r = p.expr()
		} else {
			r = p.impl()
		}
		return &Expr{Op: "bin", Name: "==>", Args: []*Expr{l, r}}
	}
	if p.l.tok == "<==>" {
		p.l.next()
		r := p.or()
		return &Expr{Op: "bin", Name: "<==>", Args: []*Expr{l, r}}
	}
	if p.l.tok == "?" {
		p.l.next()
		a := p.impl()
		p.expect(":")
		b := p.impl()
		return &Expr{Op: "cond", Args: []*Expr{l, a, b}}
	}
	return l
}

func (p *parser) or() *Expr {
	l := p.and()
	for p.l.tok == "||" {
		p.l.next()
		r := p.and()
		l = &Expr{Op: "bin", Name: "||", Args: []*Expr{l, r}}
	}
	return l
}

func (p *parser) and() *Expr {
	l := p.cmp()
	for p.l.tok == "&&" {
		p.l.next()
		r := p.cmp()
		l = &Expr{Op: "bin", Name: "&&", Args: []*Expr{l, r}}
	}
	return l
}

func (p *parser) cmp() *Expr {
	l := p.add()
	switch p.l.tok {
	case "==", "!=", "<", "<=", ">", ">=":
		op := p.l.tok
		p.l.next()
		r := p.add()
		return &Expr{Op: "bin", Name: op, Args: []*Expr{l, r}}
	case "is":
		p.l.next()
		ty := p.typeName()
		return &Expr{Op: "is", Name: ty, Args: []*Expr{l}}
	case "in":
		p.l.next()
		r := p.add()
		return &Expr{Op: "bin", Name: "in", Args: []*Expr{l, r}}
	}
	return l
}

func (p *parser) typeName() string {
	ty := ""
	for p.l.tok == "*" || p.l.tok == "[" || p.l.tok == "]" {
		ty += p.l.tok
		p.l.next()
	}
	if p.l.kind != 'i' {
		panic("expected type name")
	}
	ty += p.l.tok
	p.l.next()
	for p.l.tok == "." || p.l.tok == "/" {
		ty += p.l.tok
		p.l.next()
		ty += p.l.tok
		p.l.next()
	}
	return ty
}

func (p *parser) add() *Expr {
	l := p.mul()
	for p.l.tok == "+" || p.l.tok == "-" || p.l.tok == "++" {
		op := p.l.tok
		p.l.next()
		r := p.mul()
		l = &Expr{Op: "bin", Name: op, Args: []*Expr{l, r}}
	}
	return l
}

func (p *parser) mul() *Expr {
	l := p.unary()
	for p.l.tok == "*" || p.l.tok == "/" || p.l.tok == "%" {
		op := p.l.tok
		p.l.next()
		r := p.unary()
		l = &Expr{Op: "bin", Name: op, Args: []*Expr{l, r}}
	}
	return l
}

func (p *parser) unary() *Expr {
	switch p.l.tok {
	case "!":
		p.l.next()
		return &Expr{Op: "un", Name: "!", Args: []*Expr{p.unary()}}
	case "-":
		p.l.next()
		return &Expr{Op: "un", Name: "-", Args: []*Expr{p.unary()}}
	case "*":
		p.l.next()
		return &Expr{Op: "deref", Args: []*Expr{p.unary()}}
	}
	return p.postfix()
}

func (p *parser) postfix() *Expr {
	e := p.primary()
	for {
		switch p.l.tok {
		case ".":
			p.l.next()
			if p.l.kind != 'i' {
				panic("expected field name")
			}
			e = &Expr{Op: "sel", Name: p.l.tok, Args: []*Expr{e}}
			p.l.next()
		case ".(":
			p.l.next()
			ty := p.typeName()
			p.expect(")")
			e = &Expr{Op: "assert", Name: ty, Args: []*Expr{e}}
		case "[":
			p.l.next()
			var lo, hi *Expr
			if p.l.tok != ":" {
				lo = p.expr()
			}
			if p.l.tok == ":" {
				p.l.next()
				if p.l.tok != "]" {
					hi = p.expr()
				}
				p.expect("]")
				e = &Expr{Op: "slice", Args: []*Expr{e, lo, hi}}
			} else {
				p.expect("]")
				e = &Expr{Op: "index", Args: []*Expr{e, lo}}
			}
		case "(":
			p.l.next()
			var args []*Expr
			for p.l.tok != ")" {
				args = append(args, p.expr())
				if p.l.tok == "," {
					p.l.next()
				} else if p.l.tok != ")" {
					panic(fmt.Sprintf("expected , or ) got %q", p.l.tok))
				}
			}
			p.expect(")")
			if e.Op == "ident" && e.Name == "old" && len(args) == 1 {
				e = &Expr{Op: "old", Args: args}
			} else {
				e = &Expr{Op: "call", Args: append([]*Expr{e}, args...)}
			}
		default:
			return e
		}
	}
}

func (p *parser) primary() *Expr {
	switch p.l.kind {
	case 'n':
		e := &Expr{Op: "num", Name: strings.ReplaceAll(p.l.tok, "_", "")}
		p.l.next()
		return e
	case 's':
		s, err := strconv.Unquote(p.l.tok)
		if err != nil {
			panic(err)
		}
		e := &Expr{Op: "str", Name: s}
		p.l.next()
		return e
	case 'i':
		nm := p.l.tok
		p.l.next()
		switch nm {
		case "nil":
			return &Expr{Op: "nil"}
		case "true", "false":
			return &Expr{Op: nm}
		}
		return &Expr{Op: "ident", Name: nm}
	case 'o':
		if p.l.tok == "(" {
			p.l.next()
			e := p.expr()
			p.expect(")")
			return &Expr{Op: "paren", Args: []*Expr{e}}
		}
	}
	panic(fmt.Sprintf("unexpected token %q at %d", p.l.tok, p.l.pos))
}

func (e *Expr) String() string {
	if e == nil {
		return "<nil>"
	}
	switch e.Op {
	case "ident", "num":
		return e.Name
	case "str":
		return strconv.Quote(e.Name)
	case "nil", "true", "false":
		return e.Op
	case "bin":
		return "(" + e.Args[0].String() + " " + e.Name + " " + e.Args[1].String() + ")"
	case "un":
		return e.Name + e.Args[0].String()
	case "deref":
		return "*" + e.Args[0].String()
	case "sel":
		return e.Args[0].String() + "." + e.Name
	case "paren":
		return "(" + e.Args[0].String() + ")"
	case "old":
		return "old(" + e.Args[0].String() + ")"
	case "index":
		return e.Args[0].String() + "[" + e.Args[1].String() + "]"
	case "call":
		var a []string
		for _, x := range e.Args[1:] {
			a = append(a, x.String())
		}
		return e.Args[0].String() + "(" + strings.Join(a, ", ") + ")"
	case "is":
		return e.Args[0].String() + " is " + e.Name
	case "assert":
		return e.Args[0].String() + ".(" + e.Name + ")"
	case "quant":
		return e.Name + " " + strings.Join(e.Vars, ",") + " :: " + e.Args[0].String()
	}
	return e.Op
}
