package main

import (
	"fmt"
	"go/types"
	"strings"

	"golang.org/x/tools/go/ssa"
)

// modLoc is one location (or range of locations) a function may modify.
type modLoc struct {
	Comp   *Component
	Ref    string // cell ref, array id or map ref
	Fields []int  // cells holding structs: only these top-level fields (nil = whole cell)
	Lo, Hi string // arrays: absolute index range [Lo,Hi); "" = whole array
	Src    string
	Cond   string // "" or a condition (pre-state) under which the location is modified
}

// is: the formula "r is this location's reference (and the location is active)"
func (m modLoc) is(r string) string {
	if m.Cond == "" || m.Cond == "true" {
		return eq(r, m.Ref)
	}
	return and(m.Cond, eq(r, m.Ref))
}

func (m modLoc) whole() bool { return m.Fields == nil && m.Lo == "" }

// lvalue resolves a modifies-clause expression to locations.
func (env *specEnv) lvalue(e *Expr) []modLoc {
	vc := env.vc
	switch e.Op {
	case "paren":
		return env.lvalue(e.Args[0])
	case "when":
		locs := env.lvalue(e.Args[0])
		c := env.tr(e.Args[1])
		if c.Sort != "Bool" {
			sfail("modifies ... when: condition is not boolean")
		}
		for i := range locs {
			locs[i].Cond = and(locs[i].Cond, c.T)
		}
		return locs
	case "deref":
		p := env.tr(e.Args[0])
		pt, ok := p.Typ.Underlying().(*types.Pointer)
		if !ok {
			sfail("modifies: deref of non-pointer %s", e)
		}
		return []modLoc{{Comp: vc.S.cellComp(pt.Elem()), Ref: p.T, Src: e.String()}}
	case "ident":
		if b, ok := env.names[e.Name]; ok && b.Deref {
			pt := b.V.Typ.Underlying().(*types.Pointer)
			return []modLoc{{Comp: vc.S.cellComp(pt.Elem()), Ref: b.V.T, Src: e.String()}}
		}
		sfail("modifies: %s is not a location", e)
	case "sel":
		base := env.tr(e.Args[0])
		if base.Typ == nil {
			sfail("modifies: ghost base in %s", e)
		}
		if pt, ok := base.Typ.Underlying().(*types.Pointer); ok {
			st, ok := pt.Elem().Underlying().(*types.Struct)
			if !ok {
				sfail("modifies: field of non-struct in %s", e)
			}
			for i := 0; i < st.NumFields(); i++ {
				if st.Field(i).Name() == e.Name {
					return []modLoc{{Comp: vc.S.cellComp(pt.Elem()), Ref: base.T, Fields: []int{i}, Src: e.String()}}
				}
			}
			sfail("modifies: no field %s", e.Name)
		}
		// field of a struct lvalue: widen to the enclosing location
		return env.lvalue(e.Args[0])
	case "call":
		if e.Args[0].Op == "ident" {
			switch e.Args[0].Name {
			case "elems":
				s := env.tr(e.Args[1])
				_, ok := s.Typ.Underlying().(*types.Slice)
				if !ok {
					sfail("modifies: elems of non-slice")
				}
				return []modLoc{{Comp: vc.S.arrComp(s.Typ), Ref: "(s_arr " + s.T + ")", Src: e.String()}}
			case "spare": // spare capacity of a slice: [off+len, off+cap)
				s := env.tr(e.Args[1])
				_, ok := s.Typ.Underlying().(*types.Slice)
				if !ok {
					sfail("modifies: spare of non-slice")
				}
				return []modLoc{{Comp: vc.S.arrComp(s.Typ), Ref: "(s_arr " + s.T + ")",
					Lo: "(+ (s_off " + s.T + ") (s_len " + s.T + "))", Hi: "(+ (s_off " + s.T + ") (s_cap " + s.T + "))", Src: e.String()}}
			case "mapof":
				m := env.tr(e.Args[1])
				mt, ok := m.Typ.Underlying().(*types.Map)
				if !ok {
					sfail("modifies: mapof non-map")
				}
				v, d := vc.S.mapComps(mt)
				return []modLoc{{Comp: v, Ref: m.T, Src: e.String()}, {Comp: d, Ref: m.T, Src: e.String()}}
			}
		}
	case "slice":
		// elems(s)[lo:hi]
		inner := e.Args[0]
		if inner.Op == "call" && inner.Args[0].Op == "ident" && inner.Args[0].Name == "elems" {
			s := env.tr(inner.Args[1])
			if _, ok := s.Typ.Underlying().(*types.Slice); !ok {
				sfail("modifies: elems of non-slice")
			}
			lo, hi := "0", "(s_len "+s.T+")"
			if e.Args[1] != nil {
				lo = env.tr(e.Args[1]).T
			}
			if e.Args[2] != nil {
				hi = env.tr(e.Args[2]).T
			}
			return []modLoc{{Comp: vc.S.arrComp(s.Typ), Ref: "(s_arr " + s.T + ")",
				Lo: "(+ (s_off " + s.T + ") " + lo + ")", Hi: "(+ (s_off " + s.T + ") " + hi + ")", Src: e.String()}}
		}
	}
	sfail("modifies: unsupported location %s", e)
	return nil
}

// frameFacts: Hn agrees with Ho on every location that existed (< bound) and is
// not covered by locs.
func (vc *VC) frameFacts(c *Component, hn, ho, bound string, locs []modLoc) []string {
	if !strings.HasPrefix(c.Sort, "(Array Int ") {
		return nil // ghost state (iteration sets, channel counters): no locations to frame
	}
	var mine []modLoc
	for _, l := range locs {
		if l.Comp.Name == c.Name {
			mine = append(mine, l)
		}
	}
	var out []string
	vc.ctr++
	r := fmt.Sprintf("r!%d", vc.ctr)
	// (no lower bound: negative references are never allocated or written)
	guards := []string{"(< " + r + " " + bound + ")"}
	for _, l := range mine {
		guards = append(guards, not(l.is(r)))
	}
	out = append(out, fmt.Sprintf("(forall ((%s Int)) (! (=> %s (= (select %s %s) (select %s %s))) :pattern ((select %s %s))))",
		r, and(guards...), hn, r, ho, r, hn, r))
	for i, l := range mine {
		if l.whole() {
			continue
		}
		// other entries on possibly the same ref
		var distinct []string
		coversField := func(m modLoc, fld int) bool {
			if m.Fields == nil {
				return true
			}
			for _, x := range m.Fields {
				if x == fld {
					return true
				}
			}
			return false
		}
		if l.Fields != nil {
			info := vc.S.structInfoOf(c.T)
			if info == nil {
				continue
			}
			for fi, acc := range info.Fields {
				if coversField(l, fi) {
					continue
				}
				distinct = distinct[:0]
				for j, m := range mine {
					if j != i && coversField(m, fi) {
						distinct = append(distinct, not(m.is(l.Ref)))
					}
				}
				out = append(out, implies(and(append([]string{"(< " + l.Ref + " " + bound + ")"}, distinct...)...),
					eq("("+acc+" "+sel(hn, l.Ref)+")", "("+acc+" "+sel(ho, l.Ref)+")")))
			}
		} else {
			// array range
			for j, m := range mine {
				if j != i {
					distinct = append(distinct, not(m.is(l.Ref)))
				}
			}
			vc.ctr++
			k := fmt.Sprintf("k!%d", vc.ctr)
			out = append(out, implies(and(append([]string{"(< " + l.Ref + " " + bound + ")"}, distinct...)...),
				fmt.Sprintf("(forall ((%s Int)) (! (=> (or (< %s %s) (>= %s %s)) (= (select (select %s %s) %s) (select (select %s %s) %s))) :pattern ((select (select %s %s) %s))))",
					k, k, l.Lo, k, l.Hi, hn, l.Ref, k, ho, l.Ref, k, hn, l.Ref, k)))
		}
	}
	return out
}

// allowedByFrame: formula stating that writing (comp, ref, [field | idx]) is
// permitted by the top-level function's modifies clause (or the target is fresh).
func (vc *VC) allowedByFrame(c *Component, ref string, field int, idx string) string {
	locs, bound := vc.frameCtx()
	alts := []string{"(>= " + ref + " " + bound + ")"}
	for _, l := range locs {
		if l.Comp.Name != c.Name {
			continue
		}
		switch {
		case l.whole():
			alts = append(alts, l.is(ref))
		case l.Fields != nil:
			for _, x := range l.Fields {
				if x == field {
					alts = append(alts, l.is(ref))
				}
			}
		default:
			if idx != "" {
				alts = append(alts, and(l.is(ref), "(<= "+l.Lo+" "+idx+")", "(< "+idx+" "+l.Hi+")"))
			}
		}
	}
	return or(alts...)
}

func (vc *VC) frameChecked() bool {
	return vc.topFrame != nil && vc.topFrame.con != nil && !vc.topFrame.con.ModAny
}

func (f *Frame) checkFrameStore(in ssa.Instruction, a *Addr, at string, st *State) {
	vc := f.vc
	if !vc.frameChecked() || a.Const != "" {
		return
	}
	field := -1
	if len(a.Path) > 0 {
		field = a.Path[0].Field
	}
	goal := vc.allowedByFrame(a.Comp, a.Ref, field, a.Idx)
	if goal == "true" {
		return
	}
	label := vc.P.srcText(in.Pos())
	if f.depth > 0 {
		label = canonShort(f.fn) + ":" + label
	}
	vc.oblige("frame", label, at, goal, vc.P.line(in.Pos()), "store outside modifies", vc.con.Serves)
}

func (f *Frame) checkFrameRef(in ssa.Instruction, c *Component, ref, at string) {
	vc := f.vc
	if !vc.frameChecked() {
		return
	}
	goal := vc.allowedByFrame(c, ref, -1, "")
	vc.oblige("frame", vc.P.srcText(in.Pos()), at, goal, vc.P.line(in.Pos()), "map update outside modifies", vc.con.Serves)
}

// ---- call dispatch ----------------------------------------------------------

func (f *Frame) call(x *ssa.Call, at string, st *State) *Val {
	c := x.Common()
	if c.IsInvoke() {
		return f.invoke(x, c, at, st)
	}
	var args []*Val
	for _, a := range c.Args {
		args = append(args, f.val(a))
	}
	switch callee := c.Value.(type) {
	case *ssa.Builtin:
		return f.builtin(x, callee, c, at, st)
	case *ssa.Function:
		return f.callStatic(x, callee, nil, args, at, st)
	case *ssa.MakeClosure:
		fv := f.val(callee)
		return f.callStatic(x, fv.Fn, fv.FV, args, at, st)
	}
	fv := f.val(c.Value)
	if fv.Fn != nil {
		return f.callStatic(x, fv.Fn, fv.FV, args, at, st)
	}
	return f.callDynamic(x, c, fv, args, at, st)
}

func externName(fn *ssa.Function) string { return fn.String() }

func (f *Frame) callStatic(x ssa.CallInstruction, fn *ssa.Function, fvs []*Val, args []*Val, at string, st *State) *Val {
	vc := f.vc
	inModule := fn.Pkg != nil && vc.P.Module[fn.Pkg.Pkg]
	var name string
	if inModule {
		name = canonName(fn)
	} else {
		name = externName(fn)
	}
	con := vc.SS.Contracts[name]
	if con != nil {
		return f.applyContract(x, con, fn, fn.Signature, name, args, fvs, at, st)
	}
	if inModule && f.inlineable(fn) {
		return f.inline(x, fn, fvs, args, at, st)
	}
	return f.unknownCall(x, fn, fn.Signature, name, args, at, st)
}

func (f *Frame) inlineable(fn *ssa.Function) bool {
	if len(fn.Blocks) == 0 || f.depth >= 4 {
		return false
	}
	for _, g := range f.vc.inlineStack {
		if g == fn {
			return false
		}
	}
	n := 0
	for _, b := range fn.Blocks {
		for _, s := range b.Succs {
			if s.Dominates(b) {
				return false // loop
			}
		}
		for _, in := range b.Instrs {
			switch in.(type) {
			case *ssa.DebugRef:
			case *ssa.Go, *ssa.Defer, *ssa.Select, *ssa.Send, *ssa.MakeChan:
				return false
			default:
				n++
			}
		}
	}
	return n <= 120
}

func (f *Frame) inline(x ssa.CallInstruction, fn *ssa.Function, fvs []*Val, args []*Val, at string, st *State) *Val {
	vc := f.vc
	g := vc.newFrame(fn, false, f.depth+1)
	vc.inlineStack = append(vc.inlineStack, fn)
	defer func() { vc.inlineStack = vc.inlineStack[:len(vc.inlineStack)-1] }()
	g.run(args, fvs, st, at)
	return f.mergeReturns(g, fn.Signature, at, st, canonShort(fn))
}

// mergeReturns folds the returns of an inlined frame into one value and state.
func (f *Frame) mergeReturns(g *Frame, sig *types.Signature, at string, st *State, hint string) *Val {
	vc := f.vc
	if len(g.rets) == 0 {
		vc.assume("true", not(at), "callee "+hint+" never returns")
		return f.freshResults(sig, at, st, hint)
	}
	var conds []string
	var states []*State
	for _, r := range g.rets {
		conds = append(conds, r.cond)
		states = append(states, r.st)
	}
	m := f.mergeStates(conds, states, "ret_"+sanitize(hint))
	st.heap, st.alloc, st.epoch = m.heap, m.alloc, m.epoch
	// paths on which the callee panicked do not continue
	vc.assume("true", implies(at, or(conds...)), "callee "+hint+" returned normally")
	nres := sig.Results().Len()
	if nres == 0 {
		return &Val{}
	}
	res := make([]*Val, nres)
	for i := 0; i < nres; i++ {
		t := g.rets[len(g.rets)-1].vals[i].T
		fnv := g.rets[len(g.rets)-1].vals[i]
		same := true
		for k := len(g.rets) - 2; k >= 0; k-- {
			v := g.rets[k].vals[i]
			if v.T == "" {
				panic(unsupported{"inlined callee returns an interior pointer"})
			}
			if v.T != t {
				same = false
			}
			t = ite(g.rets[k].cond, v.T, t)
		}
		rv := &Val{T: vc.define(f.nm("r_"+sanitize(hint)), vc.S.sortOf(sig.Results().At(i).Type()), t)}
		if same && len(g.rets) >= 1 {
			rv.Fn, rv.FV = fnv.Fn, fnv.FV
		}
		res[i] = rv
	}
	if nres == 1 {
		return res[0]
	}
	return &Val{Tup: res}
}

func (f *Frame) freshResults(sig *types.Signature, at string, st *State, hint string) *Val {
	vc := f.vc
	n := sig.Results().Len()
	if n == 0 {
		return &Val{}
	}
	res := make([]*Val, n)
	for i := 0; i < n; i++ {
		T := sig.Results().At(i).Type()
		t := vc.declare(f.nm("res_"+sanitize(hint)), vc.S.sortOf(T))
		vc.assume(at, vc.typeInv(t, T, st.alloc), "type invariant")
		res[i] = &Val{T: t}
	}
	if n == 1 {
		return res[0]
	}
	return &Val{Tup: res}
}

// allocOnly: a frame lists no location of the (location-indexed) component.
func allocOnly(c *Component, locs []modLoc) bool {
	if !strings.HasPrefix(c.Sort, "(Array Int ") {
		return false // ghost state: not indexed by references
	}
	for _, l := range locs {
		if l.Comp.Name == c.Name {
			return false
		}
	}
	return true
}

// havocComps replaces the given components by fresh arrays (with a frame when
// locs != nil) and advances the allocation frontier.
func (f *Frame) havocComps(comps []string, all bool, locs []modLoc, framed bool, at string, st *State, origin string) {
	vc := f.vc
	bound := st.alloc
	na := vc.declare(f.nm("alloc"), "Int")
	vc.assume("true", "(>= "+na+" "+bound+")", "allocation is monotone")
	if all {
		vc.epochCtr++
		// everything becomes unknown: new epoch, forget every component
		old := st.clone()
		st.heap = map[string]string{}
		st.epoch = vc.epochCtr
		_ = old
	} else {
		for _, cn := range comps {
			c := vc.S.comps[cn]
			if c == nil {
				continue
			}
			if framed && allocOnly(c, locs) {
				// the callee's (verified or assumed) frame lists no location of this
				// component: it only allocates there. What lies beyond the allocation
				// frontier is unconstrained in the current heap (type invariants are
				// guarded by the frontier), so the same heap also describes the state
				// after the call; the callee's postcondition then speaks about it.
				// Everything stored below the new frontier predates it.
				vc.heapTypeInv(c, vc.heapOf(st, c), vc.curBlk, na)
				continue
			}
			ho := vc.heapOf(st, c)
			hn := vc.declare(c.Name, c.Sort)
			vc.heapTypeInv(c, hn, vc.curBlk, na)
			st.heap[c.Name] = hn
			if framed {
				for _, fact := range vc.frameFacts(c, hn, ho, bound, locs) {
					vc.assume(at, fact, "frame of "+origin)
				}
			}
		}
	}
	st.alloc = na
}

func (f *Frame) unknownCall(x ssa.CallInstruction, fn *ssa.Function, sig *types.Signature, name string, args []*Val, at string, st *State) *Val {
	vc := f.vc
	vc.note("call to " + name + " has no contract and cannot be inlined: result and touched heap are unknown")
	if fn != nil && fn.Pkg != nil && vc.P.Module[fn.Pkg.Pkg] {
		eff := vc.P.effects(fn)
		f.havocComps(eff.list(vc), eff.all, nil, false, at, st, name)
	} else {
		// foreign function without an assumed contract: shallow effects on its pointer/slice arguments
		vc.usedAssumptions["unspecified external "+name+": assumed to write only what its pointer and slice arguments directly reference, and not to panic"] = true
		var comps []string
		for i := 0; i < sig.Params().Len(); i++ {
			switch u := sig.Params().At(i).Type().Underlying().(type) {
			case *types.Pointer:
				comps = append(comps, vc.S.cellComp(u.Elem()).Name)
			case *types.Slice:
				comps = append(comps, vc.S.arrComp(sig.Params().At(i).Type()).Name)
			}
		}
		if r := sig.Recv(); r != nil {
			if u, ok := r.Type().Underlying().(*types.Pointer); ok {
				comps = append(comps, vc.S.cellComp(u.Elem()).Name)
			}
		}
		f.havocComps(comps, false, nil, false, at, st, name)
	}
	if vc.frameChecked() {
		vc.oblige("frame", "call:"+shortName(name), at, "false", vc.P.line(x.Pos()), "call to a function without a frame", vc.con.Serves)
	}
	return f.freshResults(sig, at, st, shortName(name))
}

func shortName(n string) string {
	if i := strings.LastIndex(n, "/"); i >= 0 {
		n = n[i+1:]
	}
	return n
}

// applyContract: assert requires, havoc per modifies, assume ensures.
func (f *Frame) applyContract(x ssa.Instruction, con *Contract, fn *ssa.Function, sig *types.Signature, name string, args []*Val, fvs []*Val, at string, st *State) *Val {
	vc := f.vc
	env := &specEnv{vc: vc, names: map[string]*specBinding{}, allocPre: st.alloc}
	if f.selfVal != "" {
		env.names["self"] = &specBinding{V: ghost(f.selfVal, "Int")}
		f.selfVal = ""
	}
	if fn != nil && fn.Pkg != nil && vc.P.Module[fn.Pkg.Pkg] {
		env.pkg = fn.Pkg.Pkg
	} else {
		env.pkg = vc.pkgByShort(con.Pkg)
	}
	if con.Lets != nil {
		env.lets = map[string]*Expr{}
		for _, l := range con.Lets {
			env.lets[l.Name] = l.Expr
		}
	}
	// parameter types: receiver first
	var ptypes []types.Type
	if r := sig.Recv(); r != nil {
		ptypes = append(ptypes, r.Type())
	}
	for i := 0; i < sig.Params().Len(); i++ {
		ptypes = append(ptypes, sig.Params().At(i).Type())
	}
	if sig.Variadic() && len(args) == len(ptypes) {
		// variadic parameter arrives as a slice already (SSA form)
	}
	for i, pn := range con.Params {
		if pn == "_" || i >= len(args) || i >= len(ptypes) {
			continue
		}
		if args[i].T == "" {
			panic(unsupported{"interior pointer passed to " + name})
		}
		env.names[pn] = &specBinding{V: vc.sv(args[i].T, ptypes[i])}
	}
	if fn != nil {
		for i, fv := range fn.FreeVars {
			if i < len(fvs) && fvs[i].T != "" {
				env.names[fv.Name()] = &specBinding{V: vc.sv(fvs[i].T, fv.Type()), Deref: true}
			}
		}
	}
	pre := st.clone()
	env.pre, env.cur = pre, pre
	short := shortName(name)
	if con.Trusted {
		vc.usedAssumptions["assumed contract of "+name] = true
	}
	// requires
	for i, cl := range con.Requires {
		t, err := env.trBool(cl.Expr)
		if err != nil {
			panic(unsupported{fmt.Sprintf("contract of %s: requires %s: %v", name, cl.Src, err)})
		}
		lab := cl.Label
		if lab == "" {
			lab = fmt.Sprintf("r%d", i)
		}
		kind := "requires@callsite"
		if con.Extern {
			kind = "safe/extpre"
		}
		label := short + ":" + lab
		if f.depth > 0 {
			label = canonShort(f.fn) + ">" + label
		}
		vc.oblige(kind, label, at, t, vc.P.line(x.Pos()), cl.Src, vc.con.Serves)
		vc.assume(at, t, "after "+kind)
	}
	// documented panics of the callee: the caller must not meet their condition
	for i, cl := range con.PanicsIf {
		t, err := env.trBool(cl.Expr)
		if err != nil {
			panic(unsupported{fmt.Sprintf("contract of %s: panics if %s: %v", name, cl.Src, err)})
		}
		label := fmt.Sprintf("%s:p%d", short, i)
		if f.depth > 0 {
			label = canonShort(f.fn) + ">" + label
		}
		vc.oblige("safe/callee-panic", label, at, not(t), vc.P.line(x.Pos()), "callee panics if "+cl.Src, vc.con.Serves)
		vc.assume(at, not(t), "after safe/callee-panic")
	}
	// modifies
	var locs []modLoc
	for _, me := range con.Modifies {
		func() {
			defer func() {
				if r := recover(); r != nil {
					if se, ok := r.(specErr); ok {
						panic(unsupported{fmt.Sprintf("contract of %s: modifies %s: %s", name, me, se.msg)})
					}
					panic(r)
				}
			}()
			locs = append(locs, env.lvalue(me)...)
		}()
	}
	// the caller's own frame must allow what the callee may modify
	if vc.frameChecked() {
		if con.ModAny && !con.Pure {
			eff := f.calleeEffects(con, fn, sig, locs)
			if eff.all || len(eff.list(vc)) > 0 {
				vc.oblige("frame", "call:"+short, at, "false", vc.P.line(x.Pos()), "callee has no modifies clause", vc.con.Serves)
			}
		}
		for _, l := range locs {
			var goal string
			switch {
			case l.whole() && !l.Comp.IsArr:
				goal = vc.allowedByFrame(l.Comp, l.Ref, -2, "")
			case l.Fields != nil:
				var gs []string
				for _, fld := range l.Fields {
					gs = append(gs, vc.allowedByFrame(l.Comp, l.Ref, fld, ""))
				}
				goal = and(gs...)
			default:
				goal = vc.allowedRange(l)
			}
			if l.Cond != "" {
				goal = implies(l.Cond, goal)
			}
			vc.oblige("frame", "call:"+short+":"+l.Src, at, goal, vc.P.line(x.Pos()), "callee modifies "+l.Src, vc.con.Serves)
		}
	}
	// effects
	eff := f.calleeEffects(con, fn, sig, locs)
	if !(con.ModNothing && len(eff.list(vc)) == 0 && !eff.all) || true {
		f.havocComps(eff.list(vc), eff.all, locs, !con.ModAny, at, st, name)
	}
	// results
	nres := sig.Results().Len()
	res := make([]*Val, nres)
	post := env.child()
	post.names = map[string]*specBinding{}
	for k, v := range env.names {
		post.names[k] = v
	}
	post.cur = st
	for i := 0; i < nres; i++ {
		T := sig.Results().At(i).Type()
		t := vc.declare(f.nm("res_"+sanitize(short)), vc.S.sortOf(T))
		vc.assume(at, vc.typeInv(t, T, st.alloc), "type invariant")
		res[i] = &Val{T: t}
		if i < len(con.Results) && con.Results[i] != "_" {
			post.names[con.Results[i]] = &specBinding{V: vc.sv(t, T)}
		}
		if nres == 1 {
			post.names["result"] = &specBinding{V: vc.sv(t, T)}
		}
	}
	for _, cl := range con.Ensures {
		t, err := post.trBool(cl.Expr)
		if err != nil {
			panic(unsupported{fmt.Sprintf("contract of %s: ensures %s: %v", name, cl.Src, err)})
		}
		vc.assume(at, t, "ensures of "+name+" ("+cl.Label+")")
	}
	// a returned channel whose producer goroutine is started by the callee: this
	// function becomes the consumer
	if fn != nil {
		for i := 0; i < nres; i++ {
			if isChanType(sig.Results().At(i).Type()) {
				if v, ok := x.(ssa.Value); ok {
					f.registerReturnedChan(v, fn, env.names, pre, pre.alloc)
				}
			}
		}
	}
	// "defines" clauses name the callee's results with specification functions
	// (e.g. determinism of a key source); they are assumptions, never obligations
	for _, cl := range con.Defines {
		t, err := post.trBool(cl.Expr)
		if err != nil {
			panic(unsupported{fmt.Sprintf("contract of %s: defines %s: %v", name, cl.Src, err)})
		}
		vc.assume(at, t, "defines of "+name)
		vc.usedAssumptions["assumed of values of "+name+": "+cl.Src] = true
	}
	switch nres {
	case 0:
		return &Val{}
	case 1:
		return res[0]
	}
	return &Val{Tup: res}
}

func (vc *VC) allowedRange(l modLoc) string {
	locs, bound := vc.frameCtx()
	alts := []string{"(>= " + l.Ref + " " + bound + ")"}
	if l.Lo != "" {
		alts = append(alts, "(>= "+l.Lo+" "+l.Hi+")") // empty range: nothing is written
	}
	for _, m := range locs {
		if m.Comp.Name != l.Comp.Name {
			continue
		}
		if m.whole() {
			alts = append(alts, m.is(l.Ref))
		} else if m.Lo != "" && l.Lo != "" {
			alts = append(alts, and(m.is(l.Ref), "(<= "+m.Lo+" "+l.Lo+")", "(<= "+l.Hi+" "+m.Hi+")"))
		}
	}
	return or(alts...)
}

// calleeEffects: heap components a contracted callee may write or allocate in.
func (f *Frame) calleeEffects(con *Contract, fn *ssa.Function, sig *types.Signature, locs []modLoc) *effectSet {
	vc := f.vc
	if fn != nil && fn.Pkg != nil && vc.P.Module[fn.Pkg.Pkg] && len(fn.Blocks) > 0 {
		return vc.P.effects(fn)
	}
	if con.ifaceEff != nil {
		return con.ifaceEff
	}
	e := newEffectSet()
	for _, l := range locs {
		e.comps[l.Comp.Name] = true
	}
	vc.P.touchesEffects(e, con)
	// results that are fresh pointers/slices live in their components
	if sig != nil {
		for i := 0; i < sig.Results().Len(); i++ {
			switch u := sig.Results().At(i).Type().Underlying().(type) {
			case *types.Pointer:
				e.comps[vc.S.cellComp(u.Elem()).Name] = true
			case *types.Slice:
				e.comps[vc.S.arrComp(sig.Results().At(i).Type()).Name] = true
			}
		}
	}
	return e
}

// callDynamic: call through a function value with no statically known target.
func (f *Frame) callDynamic(x ssa.CallInstruction, c *ssa.CallCommon, fv *Val, args []*Val, at string, st *State) *Val {
	vc := f.vc
	sig := c.Signature()
	tn := ""
	if n, ok := c.Value.Type().(*types.Named); ok && n.Obj().Pkg() != nil {
		tn = shortPkg(n.Obj().Pkg().Path()) + "." + n.Obj().Name()
	}
	f.safe("nilfunc", x, at, not(eq(fv.T, "0")))
	if con, ok := vc.SS.FuncTypes[tn]; ok {
		vc.usedAssumptions["function values of type "+tn+" satisfy the declared functype contract"] = true
		f.selfVal = fv.T // "self" in a functype contract: the function value being called
		defer func() { f.selfVal = "" }()
		return f.applyContract(x, con, nil, sig, tn, args, nil, at, st)
	}
	vc.note("call through function value of type " + c.Value.Type().String() + ": everything on the heap is unknown afterwards")
	f.havocComps(nil, true, nil, false, at, st, "dynamic call")
	if vc.frameChecked() {
		vc.oblige("frame", "call:dynamic", at, "false", vc.P.line(x.Pos()), "dynamic call without functype contract", vc.con.Serves)
	}
	return f.freshResults(sig, at, st, "dyn")
}

// invoke: interface method call. Closed interfaces: case split over implementors.
func (f *Frame) invoke(x *ssa.Call, c *ssa.CallCommon, at string, st *State) *Val {
	vc := f.vc
	recv := f.term(c.Value)
	var args []*Val
	for _, a := range c.Args {
		args = append(args, f.val(a))
	}
	sig := c.Signature()
	n, closed := vc.P.closedInterface(c.Value.Type())
	if !closed {
		f.safe("nil", x, at, not(eq(recv, "0")))
		return f.invokeOpen(x, c, recv, args, at, st)
	}
	info := vc.S.ifaceInfoOf(n)
	f.safe("nil", x, at, not(eq(recv, info.Nil)))
	iname := shortPkg(n.Obj().Pkg().Path()) + "." + n.Obj().Name() + "." + c.Method.Name()
	if con, ok := vc.SS.Ifaces[iname]; ok {
		// interface-method contract: one modular step instead of a case split; each
		// implementing method is separately verified against this contract
		if con.ifaceEff == nil {
			e := newEffectSet()
			for _, T := range info.Impls {
				if m := vc.P.Prog.LookupMethod(T, c.Method.Pkg(), c.Method.Name()); m != nil {
					e.union(vc.P.effects(m))
				}
			}
			con.ifaceEff = e
		}
		all := append([]*Val{{T: recv}}, args...)
		rsig := types.NewSignatureType(types.NewVar(0, nil, "recv", c.Value.Type()), nil, nil, sig.Params(), sig.Results(), sig.Variadic())
		return f.applyContract(x, con, nil, rsig, iname, all, nil, at, st)
	}
	type branch struct {
		cond string
		val  *Val
		st   *State
	}
	var brs []branch
	for i, T := range info.Impls {
		m := vc.P.Prog.LookupMethod(T, c.Method.Pkg(), c.Method.Name())
		if m == nil {
			panic(unsupported{"no method " + c.Method.Name() + " on " + T.String()})
		}
		cond := vc.define(f.nm("is_"+tname(T)), "Bool", and(at, "((_ is "+info.Ctors[i]+") "+recv+")"))
		bst := st.clone()
		// unwrap synthetic wrappers (pointer-receiver wrappers for value methods)
		target := m
		rv := &Val{T: vc.define(f.nm("rv"), vc.S.sortOf(T), "("+info.Projs[i]+" "+recv+")")}
		bargs := append([]*Val{rv}, args...)
		var v *Val
		if target.Synthetic != "" {
			v = f.callWrapper(x, target, T, bargs, cond, bst)
		} else {
			v = f.callStatic(x, target, nil, bargs, cond, bst)
		}
		brs = append(brs, branch{cond, v, bst})
	}
	if len(brs) == 0 {
		vc.assume("true", not(at), "interface without implementors")
		return f.freshResults(sig, at, st, "invoke")
	}
	var conds []string
	var states []*State
	for _, b := range brs {
		conds = append(conds, b.cond)
		states = append(states, b.st)
	}
	m := f.mergeStates(conds, states, "inv")
	st.heap, st.alloc, st.epoch = m.heap, m.alloc, m.epoch
	nres := sig.Results().Len()
	if nres == 0 {
		return &Val{}
	}
	res := make([]*Val, nres)
	for i := 0; i < nres; i++ {
		get := func(v *Val) string {
			if nres == 1 {
				return v.T
			}
			return v.Tup[i].T
		}
		t := get(brs[len(brs)-1].val)
		for k := len(brs) - 2; k >= 0; k-- {
			t = ite(brs[k].cond, get(brs[k].val), t)
		}
		res[i] = &Val{T: vc.define(f.nm(x.Name()), vc.S.sortOf(sig.Results().At(i).Type()), t)}
	}
	if nres == 1 {
		return res[0]
	}
	return &Val{Tup: res}
}

// callWrapper handles synthetic method wrappers: (*T).M wrapping T.M (load the
// receiver) and promoted methods through embedded fields.
func (f *Frame) callWrapper(x ssa.CallInstruction, w *ssa.Function, T types.Type, args []*Val, at string, st *State) *Val {
	if f.inlineable(w) {
		return f.inline(x, w, nil, args, at, st)
	}
	return f.unknownCall(x, w, w.Signature, w.String(), args, at, st)
}

func (f *Frame) invokeOpen(x *ssa.Call, c *ssa.CallCommon, recv string, args []*Val, at string, st *State) *Val {
	vc := f.vc
	// interface methods on open interfaces: looked up as "iface:<Type>.<Method>"
	name := "iface:" + types.TypeString(c.Value.Type(), func(p *types.Package) string { return p.Path() }) + "." + c.Method.Name()
	if con, ok := vc.SS.Contracts[name]; ok {
		all := append([]*Val{{T: recv}}, args...)
		sig := c.Signature()
		// give the signature a receiver for positional binding
		rsig := types.NewSignatureType(types.NewVar(0, nil, "recv", c.Value.Type()), nil, nil, sig.Params(), sig.Results(), sig.Variadic())
		return f.applyContract(x, con, nil, rsig, name, all, nil, at, st)
	}
	vc.note("invoke " + name + " without assumed contract: heap unknown afterwards")
	f.havocComps(nil, true, nil, false, at, st, name)
	if vc.frameChecked() {
		vc.oblige("frame", "call:"+shortName(name), at, "false", vc.P.line(x.Pos()), "open interface call without contract", vc.con.Serves)
	}
	return f.freshResults(c.Signature(), at, st, "invoke")
}
