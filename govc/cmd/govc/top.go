package main

import (
	"fmt"
	"go/ast"
	"go/token"
	"go/types"
	"os"
	"regexp"
	"sort"
	"strings"

	"golang.org/x/tools/go/ssa"
)

func (P *Program) inModule(fn *ssa.Function) bool {
	if fn.Pkg != nil {
		return P.Module[fn.Pkg.Pkg]
	}
	return fn.Synthetic != "" && len(fn.Blocks) > 0
}

// ---- builtins -------------------------------------------------------------------

func (f *Frame) builtin(x *ssa.Call, b *ssa.Builtin, c *ssa.CallCommon, at string, st *State) *Val {
	vc := f.vc
	switch b.Name() {
	case "len", "cap":
		a := f.term(c.Args[0])
		switch u := c.Args[0].Type().Underlying().(type) {
		case *types.Slice:
			return &Val{T: "(s_" + b.Name() + " " + a + ")"}
		case *types.Basic:
			return &Val{T: "(strlen " + a + ")"}
		case *types.Array:
			return &Val{T: fmt.Sprint(u.Len())}
		case *types.Pointer:
			return &Val{T: fmt.Sprint(u.Elem().Underlying().(*types.Array).Len())}
		case *types.Map:
			n := vc.declare(f.nm("maplen"), "Int")
			vc.assume(at, "(<= 0 "+n+")", "len(map) is non-negative (otherwise unknown)")
			return &Val{T: n}
		}
	case "append":
		return f.appendOp(x, c, at, st)
	case "copy":
		return f.copyOp(x, c, at, st)
	case "print", "println":
		return &Val{}
	case "close":
		f.closeBuiltin(c, at)
		return &Val{}
	}
	panic(unsupported{"builtin " + b.Name()})
}

// srcSliceType: the slice type whose class holds the elements of an append/copy
// source; looks through conversions that exist only to pass the source operand.
func srcSliceType(v ssa.Value) types.Type {
	for {
		ct, ok := v.(*ssa.ChangeType)
		if !ok || !isSliceT(ct.X.Type()) || !onlyReadAsSource(ct) {
			return v.Type()
		}
		v = ct.X
	}
}

// constLenOne: the value is a slice over a fresh one-element array (SSA's
// varargs packaging); returns the element's address instruction when so.
func singleElemSlice(v ssa.Value) bool {
	sl, ok := v.(*ssa.Slice)
	if !ok || sl.Low != nil || sl.High != nil {
		return false
	}
	al, ok := sl.X.(*ssa.Alloc)
	if !ok {
		return false
	}
	arr, ok := al.Type().Underlying().(*types.Pointer).Elem().Underlying().(*types.Array)
	return ok && arr.Len() == 1
}

// emptyLiteralSlice: the value is []T{} (a slice over a fresh zero-length array).
func emptyLiteralSlice(v ssa.Value) bool {
	sl, ok := v.(*ssa.Slice)
	if !ok || sl.Low != nil || sl.High != nil {
		return false
	}
	al, ok := sl.X.(*ssa.Alloc)
	if !ok {
		return false
	}
	arr, ok := al.Type().Underlying().(*types.Pointer).Elem().Underlying().(*types.Array)
	return ok && arr.Len() == 0
}

func (f *Frame) appendOp(x *ssa.Call, c *ssa.CallCommon, at string, st *State) *Val {
	vc := f.vc
	s := f.term(c.Args[0])
	comp := vc.S.arrComp(c.Args[0].Type())
	h := vc.heapOf(st, comp)
	n := "(s_len " + s + ")"
	var k, tArr, tOff string
	var tIsStr bool
	t := f.term(c.Args[1])
	if isString(c.Args[1].Type()) {
		tIsStr = true
		k = "(strlen " + t + ")"
	} else {
		k = "(s_len " + t + ")"
		tArr, tOff = "(s_arr "+t+")", "(s_off "+t+")"
	}
	// the appended elements are read from the source slice's own component
	hs := h
	if !tIsStr {
		hs = vc.heapOf(st, vc.S.arrComp(srcSliceType(c.Args[1])))
	}
	kk := vc.define(f.nm("app_k"), "Int", k)
	total := vc.define(f.nm("app_n"), "Int", "(+ "+n+" "+kk+")")
	inplace := vc.define(f.nm("app_inplace"), "Bool", "(<= "+total+" (s_cap "+s+"))")
	// own frame: an in-place append writes the spare capacity of s
	if vc.frameChecked() {
		goal := vc.allowedRange(modLoc{Comp: comp, Ref: "(s_arr " + s + ")", Lo: "(+ (s_off " + s + ") " + n + ")", Hi: "(+ (s_off " + s + ") " + total + ")"})
		label := vc.P.srcText(x.Pos())
		if f.depth > 0 {
			label = canonShort(f.fn) + ":" + label
		}
		vc.oblige("frame", "append:"+label, and(at, inplace, "(> "+kk+" 0)"), goal, vc.P.line(x.Pos()), "in-place append writes shared spare capacity", vc.con.Serves)
	}
	newArr := vc.define(f.nm("app_arr"), "Int", st.alloc)
	st.alloc = vc.define(f.nm("alloc"), "Int", "(+ "+st.alloc+" 1)")
	newCap := vc.declare(f.nm("app_cap"), "Int")
	vc.assume(at, "(and (>= "+newCap+" "+total+") (<= "+newCap+" "+maxLen+"))", "append: capacity of the grown array")
	vc.assume(at, "(<= "+total+" "+maxLen+")", "append: total length is bounded by the address space")
	rArr := vc.define(f.nm("app_rarr"), "Int", ite(inplace, "(s_arr "+s+")", newArr))
	rOff := vc.define(f.nm("app_roff"), "Int", ite(inplace, "(s_off "+s+")", "0"))
	oldInner := vc.define(f.nm("app_old"), "(Array Int "+comp.VSort+")", sel(h, "(s_arr "+s+")"))
	var inner string
	single := !tIsStr && singleElemSlice(c.Args[1])
	if single {
		// k == 1: quantifier-free in-place case
		elem := sel(sel(hs, tArr), tOff)
		fresh := vc.declare(f.nm("app_fresh"), "(Array Int "+comp.VSort+")")
		vc.ctr++
		j := fmt.Sprintf("j!%d", vc.ctr)
		vc.assume(at, fmt.Sprintf("(forall ((%s Int)) (! (=> (and (<= 0 %s) (< %s %s)) (= (select %s %s) (select %s (+ (s_off %s) %s)))) :pattern ((select %s %s))))",
			j, j, j, n, fresh, j, oldInner, s, j, fresh, j), "append: copied prefix")
		vc.assume(at, eq(sel(fresh, n), elem), "append: new element")
		inner = vc.define(f.nm("app_inner"), "(Array Int "+comp.VSort+")",
			ite(inplace, sto(oldInner, "(ix (s_off "+s+") "+n+")", elem), fresh))
	} else {
		inner = vc.declare(f.nm("app_inner"), "(Array Int "+comp.VSort+")")
		vc.ctr++
		j := fmt.Sprintf("p!%d", vc.ctr)
		// prefix (by absolute position p in the result array)
		vc.assume(at, fmt.Sprintf("(forall ((%[1]s Int)) (! (=> (and (<= %[2]s %[1]s) (< %[1]s (+ %[2]s %[3]s))) (= (select %[4]s %[1]s) (select %[5]s (+ (s_off %[6]s) (- %[1]s %[2]s))))) :pattern ((select %[4]s %[1]s))))",
			j, rOff, n, inner, oldInner, s), "append: prefix kept")
		if !tIsStr {
			tInner := vc.define(f.nm("app_src"), "(Array Int "+comp.VSort+")", sel(hs, tArr))
			vc.assume(at, fmt.Sprintf("(forall ((%[1]s Int)) (! (=> (and (<= (+ %[2]s %[3]s) %[1]s) (< %[1]s (+ %[2]s %[3]s %[7]s))) (= (select %[4]s %[1]s) (select %[5]s (+ %[6]s (- %[1]s (+ %[2]s %[3]s)))))) :pattern ((select %[4]s %[1]s))))",
				j, rOff, n, inner, tInner, tOff, kk), "append: appended elements")
		}
		// in place: everything outside the written window is unchanged
		vc.assume(at, implies(inplace, fmt.Sprintf("(forall ((%s Int)) (! (=> (or (< %s (+ (s_off %s) %s)) (>= %s (+ (s_off %s) %s))) (= (select %s %s) (select %s %s))) :pattern ((select %s %s))))",
			j, j, s, n, j, s, total, inner, j, oldInner, j, inner, j)), "append: in place leaves the rest of the array alone")
	}
	_, loopCarried := c.Args[0].(*ssa.Phi)
	_, viaPointer := c.Args[0].(*ssa.UnOp) // *p = append(*p, x): the postcondition of the enclosing function talks about (*p)[k]
	if (loopCarried || viaPointer) && os.Getenv("GOVC_NO_IDXPREFIX") == "" && !isByteSlice(c.Args[0].Type()) {
		// (only for x = append(x, ...) on a loop-carried x: that is where invariants of
		// the form "forall k :: x[k] ..." have to be carried across the append; stated
		// everywhere it multiplies instantiations for no benefit)
		// the same prefix fact in the indexed form that specifications use
		// (r[k] == s[k] for k < len(s)); implied by the facts above, stated so that
		// the trigger of "forall k :: { r[k] } ..." finds its instance
		vc.ctr++
		q := fmt.Sprintf("q!%d", vc.ctr)
		vc.assume(at, fmt.Sprintf("(forall ((%[1]s Int)) (! (=> (and (<= 0 %[1]s) (< %[1]s %[2]s)) (= (select %[3]s (ix %[4]s %[1]s)) (select %[5]s (ix (s_off %[6]s) %[1]s)))) :pattern ((select %[3]s (ix %[4]s %[1]s)))))",
			q, n, inner, rOff, oldInner, s), "append: prefix kept (indexed form)")
	}
	if !tIsStr && !single && emptyLiteralSlice(c.Args[0]) && os.Getenv("GOVC_NO_IDXPREFIX") == "" && !isByteSlice(c.Args[0].Type()) {
		// the copy idiom append([]T{}, s...): r[k] == s[k] in the indexed form
		vc.ctr++
		q := fmt.Sprintf("q!%d", vc.ctr)
		vc.assume(at, fmt.Sprintf("(forall ((%[1]s Int)) (! (=> (and (<= 0 %[1]s) (< %[1]s %[2]s)) (= (select %[3]s (ix %[4]s %[1]s)) (select (select %[5]s %[6]s) (ix %[7]s %[1]s)))) :pattern ((select %[3]s (ix %[4]s %[1]s)))))",
			q, kk, inner, rOff, hs, tArr, tOff), "append to an empty literal: the copy (indexed form)")
	}
	if isByteSlice(c.Args[0].Type()) {
		var tview string
		if tIsStr {
			tview = "(bytes_of_str " + t + ")"
		} else {
			tview = fmt.Sprintf("(bview %s %s %s)", sel(hs, tArr), tOff, kk)
		}
		vc.assume(at, eq(fmt.Sprintf("(bview %s %s %s)", inner, rOff, total),
			fmt.Sprintf("(bcat (bview %s (s_off %s) %s) %s)", oldInner, s, n, tview)), "append: byte view is the concatenation")
		vc.assume(at, implies(inplace, eq(fmt.Sprintf("(bview %s (s_off %s) %s)", inner, s, n), fmt.Sprintf("(bview %s (s_off %s) %s)", oldInner, s, n))), "append: in place keeps the view of the original slice")
		vc.assume(at, eq(fmt.Sprintf("(blen (bview %s %s %s))", inner, rOff, total), total), "append: view length")
		// in place: every byte view that ends before the written window is unchanged
		vc.ctr++
		vo, vl := fmt.Sprintf("vo!%d", vc.ctr), fmt.Sprintf("vl!%d", vc.ctr)
		vc.assume(at, implies(inplace, fmt.Sprintf("(forall ((%[1]s Int) (%[2]s Int)) (! (=> (<= (+ %[1]s %[2]s) (+ (s_off %[3]s) %[4]s)) (= (bview %[5]s %[1]s %[2]s) (bview %[6]s %[1]s %[2]s))) :pattern ((bview %[5]s %[1]s %[2]s))))",
			vo, vl, s, n, inner, oldInner)), "append: in place keeps every view before the written window")
	}
	if single {
		// ground instance: the last element of the result is the appended one
		vc.assume(at, eq(sel(inner, "(ix "+rOff+" "+n+")"), sel(sel(hs, tArr), tOff)), "append: last element")
	}
	st.heap[comp.Name] = vc.define(comp.Name, comp.Sort, sto(h, rArr, inner))
	r := vc.define(f.nm(x.Name()), "Slice", fmt.Sprintf("(mk_slice %s %s %s %s)", rArr, rOff, total, ite(inplace, "(s_cap "+s+")", newCap)))
	return &Val{T: r}
}

func (f *Frame) copyOp(x *ssa.Call, c *ssa.CallCommon, at string, st *State) *Val {
	vc := f.vc
	d := f.term(c.Args[0])
	comp := vc.S.arrComp(c.Args[0].Type())
	h := vc.heapOf(st, comp)
	s := f.term(c.Args[1])
	if isString(c.Args[1].Type()) {
		panic(unsupported{"copy from string"})
	}
	n := vc.define(f.nm("copy_n"), "Int", ite("(<= (s_len "+d+") (s_len "+s+"))", "(s_len "+d+")", "(s_len "+s+")"))
	if vc.frameChecked() {
		goal := vc.allowedRange(modLoc{Comp: comp, Ref: "(s_arr " + d + ")", Lo: "(s_off " + d + ")", Hi: "(+ (s_off " + d + ") " + n + ")"})
		vc.oblige("frame", "copy:"+vc.P.srcText(x.Pos()), and(at, "(> "+n+" 0)"), goal, vc.P.line(x.Pos()), "copy writes destination", vc.con.Serves)
	}
	oldD := sel(h, "(s_arr "+d+")")
	srcIn := sel(vc.heapOf(st, vc.S.arrComp(srcSliceType(c.Args[1]))), "(s_arr "+s+")")
	inner := vc.declare(f.nm("copy_inner"), "(Array Int "+comp.VSort+")")
	vc.ctr++
	j := fmt.Sprintf("j!%d", vc.ctr)
	vc.assume(at, fmt.Sprintf("(forall ((%[1]s Int)) (! (=> (and (<= (s_off %[2]s) %[1]s) (< %[1]s (+ (s_off %[2]s) %[3]s))) (= (select %[4]s %[1]s) (select %[5]s (+ (s_off %[6]s) (- %[1]s (s_off %[2]s)))))) :pattern ((select %[4]s %[1]s))))",
		j, d, n, inner, srcIn, s), "copy: copied elements")
	vc.assume(at, fmt.Sprintf("(forall ((%s Int)) (! (=> (or (< %s (s_off %s)) (>= %s (+ (s_off %s) %s))) (= (select %s %s) (select %s %s))) :pattern ((select %s %s))))",
		j, j, d, j, d, n, inner, j, oldD, j, inner, j), "copy: rest unchanged")
	if !isByteSlice(c.Args[0].Type()) {
		// the same in the indexed form of specifications: dst[k] == src[k] for k < n
		vc.ctr++
		q := fmt.Sprintf("q!%d", vc.ctr)
		vc.assume(at, fmt.Sprintf("(forall ((%[1]s Int)) (! (=> (and (<= 0 %[1]s) (< %[1]s %[2]s)) (= (select %[3]s (ix (s_off %[4]s) %[1]s)) (select %[5]s (ix (s_off %[6]s) %[1]s)))) :pattern ((select %[3]s (ix (s_off %[4]s) %[1]s)))))",
			q, n, inner, d, srcIn, s), "copy: copied elements (indexed form)")
	}
	if isByteSlice(c.Args[0].Type()) {
		vc.assume(at, implies(eq(n, "(s_len "+s+")"), eq(fmt.Sprintf("(bview %s (s_off %s) %s)", inner, d, n), fmt.Sprintf("(bview %s (s_off %s) %s)", srcIn, s, n))), "copy: byte view")
	}
	st.heap[comp.Name] = vc.define(comp.Name, comp.Sort, sto(h, "(s_arr "+d+")", inner))
	return &Val{T: n}
}

// ---- loops ------------------------------------------------------------------------

// loopEffects: components written (or allocated in) by the loop body.
func (f *Frame) loopEffects(li *loopInfo) *effectSet {
	vc := f.vc
	e := newEffectSet()
	for b := range li.blocks {
		fake := []*ssa.BasicBlock{b}
		le, callees := vc.P.localEffectsBlocks(fake)
		e.union(le)
		for _, c := range callees {
			e.union(vc.P.effects(c))
		}
		for _, in := range b.Instrs {
			if nx, ok := in.(*ssa.Next); ok && !nx.IsString {
				if rng, ok := nx.Iter.(*ssa.Range); ok {
					if m, ok := rng.X.Type().Underlying().(*types.Map); ok {
						e.comps[f.rangeComp(rng, m).Name] = true
					}
				}
			}
			if u, ok := in.(*ssa.UnOp); ok && u.Op == token.ARROW {
				if p := f.chanOf(u.X); p != nil {
					e.comps[vc.ghostBool(p.drainedComp()).Name] = true
				}
			}
			if sl, ok := in.(*ssa.Select); ok {
				for _, s := range sl.States {
					if p := f.chanOf(s.Chan); p != nil {
						e.comps[vc.ghostBool(p.drainedComp()).Name] = true
					}
				}
			}
			if sd, ok := in.(*ssa.Send); ok {
				if _, name := f.producerChan(sd.Chan); name != "" {
					e.comps[vc.ghostBool("ChanFinal_"+name).Name] = true
					e.comps[vc.ghostInt("ChanCount_"+name).Name] = true
				}
			}
		}
	}
	return e
}

func (f *Frame) loopNames(li *loopInfo, phiVals map[*ssa.Phi]string) map[string]*specBinding {
	vc := f.vc
	names := map[string]*specBinding{}
	base := f.names
	if f.top && f.loopCon != nil && f.loopNamesBase != nil {
		base = f.loopNamesBase
	}
	for k, v := range base {
		names[k] = v
	}
	h := li.header
	// single-assignment locals via DebugRef
	// For each name, the binding is the value of the last reference (definition or
	// use) of that name in a block that strictly dominates the loop header: on
	// every path to the header that is the variable's current value, provided no
	// other reference of the name lies between it and the header (checked: all
	// references in dominating blocks are ordered by dominance, and references in
	// non-dominating blocks that reach the header make the name ambiguous unless
	// they carry the same value).
	cand := map[string]map[ssa.Value]bool{}
	type lastRef struct {
		d   *ssa.DebugRef
		idx int
	}
	last := map[string]lastRef{}
	ambiguous := map[string]bool{}
	for _, b := range f.fn.Blocks {
		for idx, in := range b.Instrs {
			d, ok := in.(*ssa.DebugRef)
			if !ok || d.IsAddr {
				continue
			}
			id := identName(d)
			if id == "" {
				continue
			}
			if li.blocks[b] {
				continue // references inside the loop do not define the value at its head
			}
			if !(b.Dominates(h) && b != h) {
				// a reference on some side path: only harmless if it names the same value
				if cand[id] == nil {
					cand[id] = map[ssa.Value]bool{}
				}
				cand[id][d.X] = true
				continue
			}
			l, seen := last[id]
			if !seen || l.d.Block().Dominates(b) && (l.d.Block() != b || l.idx < idx) {
				last[id] = lastRef{d, idx}
			}
		}
	}
	chosen := map[string]map[ssa.Value]bool{}
	for n, l := range last {
		// (A name bound to a different SSA value than the author intended cannot
		// make a proof unsound: the invariant is checked and assumed for the same
		// value; it can only make the invariant unprovable.)
		if !ambiguous[n] {
			chosen[n] = map[ssa.Value]bool{l.d.X: true}
		}
	}
	for n, vs := range chosen {
		for v := range vs {
			in, ok := v.(ssa.Instruction)
			if ok && !(in.Block().Dominates(h) && in.Block() != h) {
				continue
			}
			if _, isParam := v.(*ssa.Parameter); isParam {
				continue
			}
			if x, ok := f.env[v]; ok && x.T != "" {
				if _, dup := names[n]; !dup {
					names[n] = &specBinding{V: vc.sv(x.T, v.Type())}
				}
			}
		}
	}
	// address-taken locals
	for _, b := range f.fn.Blocks {
		for _, in := range b.Instrs {
			if a, ok := in.(*ssa.Alloc); ok && a.Comment != "" && a.Block().Dominates(h) {
				if x, ok := f.env[a]; ok && x.T != "" {
					names[a.Comment] = &specBinding{V: vc.sv(x.T, a.Type()), Deref: true}
				}
			}
		}
	}
	for _, in := range h.Instrs {
		if nx, ok := in.(*ssa.Next); ok && !nx.IsString {
			if rng, ok := nx.Iter.(*ssa.Range); ok {
				if m, ok := rng.X.Type().Underlying().(*types.Map); ok {
					names["#seen"] = &specBinding{V: ghost(f.rangeComp(rng, m).Name, "RangeComp!")}
				}
			}
		}
	}
	for _, in := range h.Instrs {
		phi, ok := in.(*ssa.Phi)
		if !ok {
			break
		}
		t := phiVals[phi]
		if phi.Comment == "rangeindex" {
			names["#i"] = &specBinding{V: ghost("(+ "+t+" 1)", "Int")}
			continue
		}
		if phi.Comment != "" {
			names[phi.Comment] = &specBinding{V: vc.sv(t, phi.Type())}
		}
	}
	return names
}

func identName(d *ssa.DebugRef) string {
	if id, ok := d.Expr.(interface{ String() string }); ok {
		s := id.String()
		if !strings.ContainsAny(s, ".([ ") {
			return s
		}
	}
	return ""
}

// everyIterationRuns: inner is nested in outer, and every path from the body of outer
// back to its head passes through the head of inner (paths that leave outer - break,
// return - are not completed iterations and are not constrained here).
func everyIterationRuns(outer, inner *loopInfo) bool {
	if inner == outer || !outer.blocks[inner.header] {
		return false
	}
	seen := map[*ssa.BasicBlock]bool{}
	var stack []*ssa.BasicBlock
	for _, s := range outer.header.Succs {
		if s == outer.header {
			return false
		}
		if outer.blocks[s] {
			stack = append(stack, s)
		}
	}
	for len(stack) > 0 {
		b := stack[len(stack)-1]
		stack = stack[:len(stack)-1]
		if b == inner.header || seen[b] {
			continue
		}
		seen[b] = true
		for _, s := range b.Succs {
			if s == outer.header {
				return false // back at the head without having met the nested loop
			}
			if outer.blocks[s] {
				stack = append(stack, s)
			}
		}
	}
	return true
}

func (f *Frame) loopSpec(li *loopInfo) *LoopSpec {
	if f.top && f.loopCon != nil {
		// verifying against an interface-method contract: the loop invariants are
		// those of the function's own contract
		return f.loopCon.Loops[li.ordinal]
	}
	if f.top && f.con != nil {
		return f.con.Loops[li.ordinal]
	}
	return nil
}

func (f *Frame) invEnv(names map[string]*specBinding, cur *State) *specEnv {
	vc := f.vc
	env := &specEnv{vc: vc, pkg: f.fn.Pkg.Pkg, names: names, pre: f.entry, cur: cur, allocPre: "alloc0"}
	if f.con != nil && f.con.Lets != nil {
		env.lets = map[string]*Expr{}
		for _, l := range f.con.Lets {
			env.lets[l.Name] = l.Expr
		}
	}
	return env
}

func (f *Frame) enterLoop(li *loopInfo, b *ssa.BasicBlock, preds []*ssa.BasicBlock, conds []string, at string, cur *State) {
	vc := f.vc
	spec := f.loopSpec(li)
	// 1. entry values of the header phis
	entryVals := map[*ssa.Phi]string{}
	var phis []*ssa.Phi
	for _, in := range b.Instrs {
		phi, ok := in.(*ssa.Phi)
		if !ok {
			break
		}
		phis = append(phis, phi)
		entryVals[phi] = f.phiValue(phi, preds, conds).T
	}
	if spec != nil && spec.HasModifies && f.top {
		li.preHeap, li.bound = cur.clone(), cur.alloc
		// pre(x) for a loop-carried local x: its value when the loop was entered
		li.entryNames = map[string]*specBinding{}
		for _, phi := range phis {
			if phi.Comment != "" && phi.Comment != "rangeindex" && entryVals[phi] != "" {
				li.entryNames[phi.Comment] = &specBinding{V: vc.sv(entryVals[phi], phi.Type())}
			}
		}
	}
	// 2. invariant holds on entry
	if spec != nil {
		env := f.invEnv(f.loopNames(li, entryVals), cur)
		env.loopPre, env.loopBound, env.loopEntryNames = li.preHeap, li.bound, li.entryNames
		for i, cl := range spec.Invariants {
			t, err := env.trBool(cl.Expr)
			lab := cl.Label
			if lab == "" {
				lab = fmt.Sprintf("i%d", i)
			}
			if err != nil {
				vc.specError(fmt.Sprintf("loop %d invariant %s: %v", li.ordinal, cl.Src, err), cl)
				continue
			}
			vc.oblige("inv", fmt.Sprintf("loop%d:%s@entry", li.ordinal, lab), at, t, cl.Line, cl.Src, vc.con.Serves)
		}
		// structural clauses: every completed iteration runs the named nested loop
		for _, run := range spec.Runs {
			var inner *loopInfo
			for _, l := range f.loops {
				if l.ordinal == run.Inner {
					inner = l
				}
			}
			goal := "false"
			if inner != nil && everyIterationRuns(li, inner) {
				goal = "true"
			}
			props := vc.con.Serves
			if run.Serves != nil {
				props = run.Serves
			}
			vc.oblige("structure", fmt.Sprintf("loop%d:runs:loop%d", li.ordinal, run.Inner), at, goal, run.Line, run.Src, props)
		}
	}
	// 3. havoc loop targets
	eff := f.loopEffects(li)
	var frameLocs []modLoc
	framed := false
	if vc.frameChecked() {
		frameLocs, framed = vc.topFrame.modLocs, true
	}
	// frame relative to function entry for pre-existing locations
	entryBound := "alloc0"
	preAlloc := cur.alloc
	preHeap := (*State)(nil)
	if spec != nil && spec.HasModifies && f.top {
		// the loop has its own frame: locations that exist at loop entry and are
		// not listed are unchanged at the loop head (relative to the loop-entry
		// heap); every write inside the loop is checked against this frame, and
		// the frame itself against the enclosing one
		env := f.invEnv(f.loopNames(li, entryVals), cur)
		env.loopPre, env.loopBound, env.loopEntryNames = li.preHeap, li.bound, li.entryNames
		var locs []modLoc
		for _, me := range spec.Modifies {
			func() {
				defer func() {
					if r := recover(); r != nil {
						if se, ok := r.(specErr); ok {
							vc.specErrs = append(vc.specErrs, fmt.Sprintf("loop %d modifies %s: %s", li.ordinal, me, se.msg))
							return
						}
						panic(r)
					}
				}()
				locs = append(locs, env.lvalue(me)...)
			}()
		}
		if vc.frameChecked() {
			for _, l := range locs {
				var goal string
				switch {
				case l.Fields != nil:
					var gs []string
					for _, fld := range l.Fields {
						gs = append(gs, vc.allowedByFrame(l.Comp, l.Ref, fld, ""))
					}
					goal = and(gs...)
				case l.whole() && !l.Comp.IsArr:
					goal = vc.allowedByFrame(l.Comp, l.Ref, -2, "")
				default:
					goal = vc.allowedRange(l)
				}
				vc.oblige("frame", fmt.Sprintf("loop%d:%s", li.ordinal, l.Src), at, goal, "", "loop frame is within the enclosing frame", vc.con.Serves)
			}
		}
		// local (non-escaping) variables that the loop body assigns are part of the
		// loop's frame without having to be listed
		for blk := range li.blocks {
			for _, in := range blk.Instrs {
				st, ok := in.(*ssa.Store)
				if !ok {
					continue
				}
				if al, ok := rootOfAddr(st.Addr).(*ssa.Alloc); ok && !al.Heap && !li.blocks[al.Block()] {
					if v, ok := f.env[al]; ok && v.T != "" {
						pt := al.Type().Underlying().(*types.Pointer)
						if _, isArr := pt.Elem().Underlying().(*types.Array); !isArr {
							locs = append(locs, modLoc{Comp: vc.S.cellComp(pt.Elem()), Ref: v.T, Src: "local " + al.Comment})
						}
					}
				}
			}
		}
		frameLocs, framed = locs, true
		entryBound = preAlloc
		preHeap = cur.clone()
		vc.loopFrames = append(vc.loopFrames, &loopFrame{li: li, locs: locs, bound: preAlloc})
	}
	if eff.all {
		f.havocComps(nil, true, nil, false, at, cur, "loop")
	} else {
		na := vc.declare(f.nm("alloc_loop"), "Int")
		vc.assume("true", "(>= "+na+" "+preAlloc+")", "allocation is monotone")
		for _, cn := range eff.list(vc) {
			c := vc.S.comps[cn]
			if preHeap != nil && allocOnly(c, frameLocs) {
				// the loop has its own frame and lists no location of this component:
				// every write to a location that exists at loop entry is checked against
				// that frame, so the loop only allocates here. Locations beyond the
				// frontier are unconstrained in the current heap already (type invariants
				// are guarded by the frontier), so the heap need not change.
				vc.heapTypeInv(c, vc.heapOf(cur, c), vc.curBlk, na)
				continue
			}
			hn := vc.declare(c.Name+"_loop", c.Sort)
			vc.heapTypeInv(c, hn, vc.curBlk, na)
			if framed {
				ho := vc.heapOf(f.entryOfTop(), c)
				origin := "loop frame (function modifies clause)"
				if preHeap != nil {
					ho = vc.heapOf(preHeap, c)
					origin = "loop frame (loop modifies clause)"
				}
				for _, fact := range vc.frameFacts(c, hn, ho, entryBound, frameLocs) {
					vc.assume(at, fact, origin)
				}
			}
			cur.heap[c.Name] = hn
		}
		cur.alloc = na
	}
	hvals := map[*ssa.Phi]string{}
	for _, phi := range phis {
		t := vc.declare(f.nm(phi.Name()), vc.S.sortOf(phi.Type()))
		vc.assume(at, vc.typeInv(t, phi.Type(), cur.alloc), "type invariant")
		if phi.Comment == "rangeindex" {
			vc.assume(at, "(>= "+t+" (- 1))", "range index starts at -1 and only increases")
			// the header of a range-over-slice/array loop is: i1 = phi+1; if i1 < N;
			// so phi < N whenever N >= 0 (inductive by construction of the loop)
			if n := f.rangeBound(b, phi); n != "" {
				vc.assume(at, "(=> (>= "+n+" 0) (< "+t+" "+n+"))", "range index stays below the range length")
			}
		}
		hvals[phi] = t
		f.env[phi] = &Val{T: t}
	}
	// 4. assume the invariant in the havocked state
	if spec != nil {
		env := f.invEnv(f.loopNames(li, hvals), cur)
		env.loopPre, env.loopBound, env.loopEntryNames = li.preHeap, li.bound, li.entryNames
		for _, cl := range spec.Invariants {
			t, err := env.trBool(cl.Expr)
			if err != nil {
				continue
			}
			vc.assume(at, t, fmt.Sprintf("loop %d invariant", li.ordinal))
		}
		// cover: invariant and path condition satisfiable
		o := vc.oblige("vacuity", fmt.Sprintf("loop%d", li.ordinal), at, "true", "", "loop invariant is satisfiable with the loop reachable", vc.con.Serves)
		o.Expect = "sat"
	}
}

// rangeBound recognises "i1 = phi + 1; c = i1 < N; if c" in a range loop header
// and returns N's term (N is a constant or defined before the loop).
func (f *Frame) rangeBound(h *ssa.BasicBlock, phi *ssa.Phi) string {
	var inc *ssa.BinOp
	for _, in := range h.Instrs {
		if bo, ok := in.(*ssa.BinOp); ok {
			if inc == nil && bo.Op == token.ADD && bo.X == ssa.Value(phi) {
				if c, ok := bo.Y.(*ssa.Const); ok && c.Int64() == 1 {
					inc = bo
				}
				continue
			}
			if inc != nil && bo.Op == token.LSS && bo.X == ssa.Value(inc) {
				switch n := bo.Y.(type) {
				case *ssa.Const:
					return f.vc.constTerm(n)
				default:
					if v, ok := f.env[n]; ok && v.T != "" {
						return v.T
					}
				}
			}
		}
	}
	return ""
}

func (f *Frame) entryOfTop() *State { return f.vc.topFrame.entry }

func (f *Frame) checkLoopBack(li *loopInfo, from *ssa.BasicBlock, cond string, st *State) {
	vc := f.vc
	spec := f.loopSpec(li)
	h := li.header
	idx := -1
	for i, p := range h.Preds {
		if p == from {
			idx = i
		}
	}
	vals := map[*ssa.Phi]string{}
	for _, in := range h.Instrs {
		phi, ok := in.(*ssa.Phi)
		if !ok {
			break
		}
		vals[phi] = f.term(phi.Edges[idx])
	}
	if spec == nil {
		return
	}
	env := f.invEnv(f.loopNames(li, vals), st)
	env.loopPre, env.loopBound, env.loopEntryNames = li.preHeap, li.bound, li.entryNames
	for i, cl := range spec.Invariants {
		t, err := env.trBool(cl.Expr)
		if err != nil {
			continue
		}
		lab := cl.Label
		if lab == "" {
			lab = fmt.Sprintf("i%d", i)
		}
		vc.oblige("inv", fmt.Sprintf("loop%d:%s@preserved", li.ordinal, lab), cond, t, cl.Line, cl.Src, vc.con.Serves)
	}
}

func (vc *VC) specError(msg string, cl Clause) {
	vc.specErrs = append(vc.specErrs, msg+" ["+cl.Line+"]")
}

// ---- returns / panics ------------------------------------------------------------

func (f *Frame) atReturn(x *ssa.Return, at string, vals []*Val, st *State) {
	vc := f.vc
	con := f.con
	if con == nil {
		return
	}
	names := map[string]*specBinding{}
	for k, v := range f.names {
		names[k] = v
	}
	sig := f.fn.Signature
	for i, v := range vals {
		if v.T == "" {
			continue
		}
		b := &specBinding{V: vc.sv(v.T, sig.Results().At(i).Type())}
		if i < len(con.Results) && con.Results[i] != "_" {
			names[con.Results[i]] = b
		}
		if len(vals) == 1 {
			names["result"] = b
		}
	}
	env := f.invEnv(names, st)
	for i, cl := range con.Ensures {
		lab := cl.Label
		if lab == "" {
			lab = fmt.Sprintf("e%d", i)
		}
		cenv := env
		if m := retOnlyRe.FindStringSubmatch(lab); m != nil {
			// "ensures retN_<name>: e" holds at the N-th return statement only and may
			// mention the locals in scope there: it says WHY the function may leave at
			// that point (e.g. an enumeration stops only when it is exhausted)
			if vc.retLabel(x) != "ret"+m[1] {
				continue
			}
			cenv = f.invEnv(f.namesAt(x.Block(), names), st)
		} else if m := retValRe.FindStringSubmatch(lab); m != nil {
			// "ensures retval_<ident>__<name>: e" holds at every return statement whose
			// (first) result is written as that identifier (`return policyResult`,
			// `return ErrNoMatchingPolicy`), wherever such a statement stands: it says what
			// must have happened before that value may be handed out. Locals in scope.
			if vc.returnedIdent(x) != m[1] {
				continue
			}
			cenv = f.invEnv(f.namesAt(x.Block(), names), st)
		}
		t, err := cenv.trBool(cl.Expr)
		if err != nil {
			vc.specError(fmt.Sprintf("ensures %s: %v", cl.Src, err), cl)
			continue
		}
		props := con.Serves
		if cl.Serves != nil {
			props = cl.Serves
		}
		o := vc.oblige("ensures", lab+"@"+vc.retLabel(x), at, t, cl.Line, cl.Src, props)
		_ = o
	}
}

var retOnlyRe = regexp.MustCompile(`^ret([0-9]+)_`)
var retValRe = regexp.MustCompile(`^retval_(.+?)__`)

// returnedIdent: the identifier (or the selector's last name) that the return
// statement of x writes as its first result, "" if it is any other expression.
func (vc *VC) returnedIdent(x *ssa.Return) string {
	syn := vc.fn.Syntax()
	if syn == nil || !x.Pos().IsValid() {
		return ""
	}
	name := ""
	ast.Inspect(syn, func(n ast.Node) bool {
		if fl, ok := n.(*ast.FuncLit); ok && ast.Node(fl) != syn {
			return false // returns of nested function literals belong to them
		}
		r, ok := n.(*ast.ReturnStmt)
		if !ok || r.Return != x.Pos() || len(r.Results) == 0 {
			return true
		}
		switch e := r.Results[0].(type) {
		case *ast.Ident:
			name = e.Name
		case *ast.SelectorExpr:
			name = e.Sel.Name
		}
		return false
	})
	return name
}

// retLabel names a return statement by its ordinal among the function's returns.
func (vc *VC) retLabel(x *ssa.Return) string {
	k := 0
	for _, b := range vc.fn.Blocks {
		for _, in := range b.Instrs {
			if r, ok := in.(*ssa.Return); ok {
				if r == x {
					return fmt.Sprintf("ret%d", k)
				}
				k++
			}
		}
	}
	return "ret"
}

func (f *Frame) atPanic(x *ssa.Panic, at string, st *State) {
	vc := f.vc
	con := vc.topFrame.con
	if f.top && con != nil && len(con.PanicsIf) > 0 {
		env := f.invEnv(f.names, f.entry)
		var alts []string
		for _, cl := range con.PanicsIf {
			t, err := env.trBool(cl.Expr)
			if err != nil {
				vc.specError(fmt.Sprintf("panics if %s: %v", cl.Src, err), cl)
				continue
			}
			alts = append(alts, t)
		}
		vc.oblige("safe/panic-documented", vc.P.srcText(x.Pos()), at, or(alts...), vc.P.line(x.Pos()), "explicit panic only under its documented condition", vc.con.Serves)
		return
	}
	label := vc.P.srcText(x.Pos())
	if f.depth > 0 {
		label = canonShort(f.fn) + ":" + label
	}
	vc.oblige("safe/unreachable-panic", label, at, "false", vc.P.line(x.Pos()), "explicit panic must be unreachable", vc.con.Serves)
}

// (defers, channels, goroutines: chan.go)

// ---- top-level driver ----------------------------------------------------------------

type FuncResult struct {
	Name        string
	Con         *Contract
	Obls        []*Obligation
	Unsupported string
	SpecErrs    []string
	Notes       []string
	Assumptions []string
	NInstr      int
	vc          *VC
}

// verifyLemma: a lemma is a closed formula over the specification vocabulary,
// proved in an arbitrary well-typed heap from the definitions and axioms only (no
// code). Lemmas compose contracts: what follows from the postconditions of two
// functions is stated once and discharged like any other obligation.
func verifyLemma(P *Program, SS *SpecSet, G *Globals, lm *Lemma) (res *FuncResult) {
	con := &Contract{Serves: lm.Serves, Pkg: lm.Pkg}
	vc := newVC(P, SS, G, nil, con)
	vc.suffix = "lemma:" + lm.Name
	res = &FuncResult{Name: "lemma:" + lm.Name, Con: con, vc: vc}
	defer func() {
		if r := recover(); r != nil {
			if u, ok := r.(unsupported); ok {
				res.Unsupported = u.why
			} else if se, ok := r.(specErr); ok {
				res.SpecErrs = append(res.SpecErrs, se.msg)
			} else {
				panic(r)
			}
		}
		res.Obls = vc.obls
		res.SpecErrs = append(res.SpecErrs, vc.specErrs...)
		for a := range vc.usedAssumptions {
			res.Assumptions = append(res.Assumptions, a)
		}
		sort.Strings(res.Assumptions)
	}()
	vc.declareNamed("alloc0", "Int")
	vc.decls = append(vc.decls, "(assert (< 0 alloc0))")
	st := &State{heap: map[string]string{}, alloc: "alloc0"}
	pkg := P.SPkgs[lm.Pkg]
	if pkg == nil {
		pkg = P.SPkgs["biscuit"]
	}
	env := &specEnv{vc: vc, pkg: pkg.Pkg, names: map[string]*specBinding{}, pre: st, cur: st, allocPre: "alloc0"}
	t, err := env.trBool(lm.Expr)
	if err != nil {
		vc.specErrs = append(vc.specErrs, fmt.Sprintf("lemma %s: %v [%s]", lm.Name, err, lm.Line))
		return res
	}
	vc.oblige("lemma", lm.Name, "true", t, lm.Line, lm.Src, lm.Serves)
	return res
}

// asIfaceType is set while an implementor is verified against an
// interface-method contract: the interface the contract belongs to.
var asIfaceType types.Type

func verifyFunction(P *Program, SS *SpecSet, G *Globals, fn *ssa.Function, con *Contract, suffix ...string) (res *FuncResult) {
	vc := newVC(P, SS, G, fn, con)
	if len(suffix) > 0 {
		vc.suffix = suffix[0]
	}
	res = &FuncResult{Name: canonName(fn) + vc.suffix, Con: con, vc: vc}
	for _, b := range fn.Blocks {
		res.NInstr += len(b.Instrs)
	}
	defer func() {
		if r := recover(); r != nil {
			if u, ok := r.(unsupported); ok {
				res.Unsupported = u.why
			} else if se, ok := r.(specErr); ok {
				res.SpecErrs = append(res.SpecErrs, se.msg)
			} else {
				panic(r)
			}
		}
		res.Obls = vc.obls
		res.SpecErrs = append(res.SpecErrs, vc.specErrs...)
		res.Notes = vc.notes
		for a := range vc.usedAssumptions {
			res.Assumptions = append(res.Assumptions, a)
		}
		sort.Strings(res.Assumptions)
	}()
	vc.declareNamed("alloc0", "Int")
	vc.decls = append(vc.decls, "(assert (< 0 alloc0))")
	st := &State{heap: map[string]string{}, alloc: "alloc0"}
	f := vc.newFrame(fn, true, 0)
	f.con = con
	if con.Iface {
		if own := SS.Contracts[canonName(fn)]; own != nil {
			f.loopCon = own
			f.loopNamesBase = map[string]*specBinding{}
		}
	}
	vc.topFrame = f
	sig := fn.Signature
	_ = sig
	var args []*Val
	for i, p := range fn.Params {
		t := vc.declareNamed("p_"+sanitize(p.Name())+fmt.Sprint(i), vc.S.sortOf(p.Type()))
		vc.assume("true", vc.typeInv(t, p.Type(), "alloc0"), "type invariant of parameter "+p.Name())
		args = append(args, &Val{T: t})
		nm := p.Name()
		if i < len(con.Params) {
			nm = con.Params[i]
		}
		if nm != "_" && nm != "" {
			f.names[nm] = &specBinding{V: vc.sv(t, p.Type())}
			if i == 0 && asIfaceType != nil && fn.Signature.Recv() != nil {
				// an interface-method contract talks about the receiver as a value of
				// the interface type ("t is Integer", "t.(Set)"): bind it boxed
				benv := &specEnv{vc: vc, pkg: fn.Pkg.Pkg}
				f.names[nm] = &specBinding{V: vc.sv(benv.box(vc.sv(t, p.Type()), asIfaceType), asIfaceType)}
			}
		}
		if f.loopCon != nil {
			onm := p.Name()
			if i < len(f.loopCon.Params) {
				onm = f.loopCon.Params[i]
			}
			if onm != "_" && onm != "" {
				f.loopNamesBase[onm] = &specBinding{V: vc.sv(t, p.Type())}
			}
		}
	}
	var fvs []*Val
	for i, fv := range fn.FreeVars {
		t := vc.declareNamed("fv_"+sanitize(fv.Name())+fmt.Sprint(i), "Int")
		vc.assume("true", "(and (< 0 "+t+") (< "+t+" alloc0))", "captured variable "+fv.Name()+" is allocated")
		fvs = append(fvs, &Val{T: t})
		f.names[fv.Name()] = &specBinding{V: vc.sv(t, fv.Type()), Deref: true}
	}
	if vc.suffix != "" {
		if _, taken := f.names["self"]; !taken {
			// functype contracts may mention "self": the function value itself
			t := vc.declareNamed("self_fn", "Int")
			vc.assume("true", not(eq(t, "0")), "a function value is not nil")
			f.names["self"] = &specBinding{V: ghost(t, "Int")}
		}
	}
	f.entry = st.clone()
	env := f.invEnv(f.names, st)
	for _, cl := range con.Requires {
		t, err := env.trBool(cl.Expr)
		if err != nil {
			vc.specError(fmt.Sprintf("requires %s: %v", cl.Src, err), cl)
			continue
		}
		vc.assume("true", t, "requires "+cl.Src)
	}
	// explicit assumptions of the function's own contract (also in interface /
	// function-type mode, where names are the own contract's)
	assumeFrom := func(c *Contract, names map[string]*specBinding) {
		if c == nil {
			return
		}
		aenv := f.invEnv(names, st)
		for _, cl := range c.Assumes {
			t, err := aenv.trBool(cl.Expr)
			if err != nil {
				vc.specError(fmt.Sprintf("assumes %s: %v", cl.Src, err), cl)
				continue
			}
			vc.assume("true", t, "assumes "+cl.Src)
			vc.usedAssumptions["assumed about the inputs of "+canonName(fn)+": "+cl.Src] = true
		}
	}
	assumeFrom(con, f.names)
	if f.loopCon != nil {
		nm := map[string]*specBinding{}
		for k, v := range f.names {
			nm[k] = v
		}
		for k, v := range f.loopNamesBase {
			nm[k] = v
		}
		assumeFrom(f.loopCon, nm)
	}
	for _, me := range con.Modifies {
		func() {
			defer func() {
				if r := recover(); r != nil {
					if se, ok := r.(specErr); ok {
						vc.specErrs = append(vc.specErrs, "modifies "+me.String()+": "+se.msg)
						return
					}
					panic(r)
				}
			}()
			f.modLocs = append(f.modLocs, env.lvalue(me)...)
		}()
	}
	if len(fn.Blocks) == 0 {
		res.Unsupported = "no body"
		return
	}
	f.run(args, fvs, st, "true")
	// vacuity cover: the requires and every assumed fact must be consistent on a
	// path to some return (dead returns are legal Go; all returns dead is not)
	if len(f.rets) > 0 {
		var conds []string
		for _, r := range f.rets {
			conds = append(conds, r.cond)
		}
		vc.curBlk = -1
		o := vc.oblige("vacuity", "return-reachable", or(conds...), "true", "", "requires and assumed facts are consistent on a path to a return", con.Serves)
		o.Expect = "sat"
	}
	return
}
